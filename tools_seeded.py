"""Evaluate a property-breaking change written by an independent sub-agent.

  tools_seeded.py <id> <property> <dir with patch.diff, demo.py, NOTES.md> [--others]

Applies the patch to /repo (git apply), runs the pinned test-suite, the
demonstration and the check(s), undoes the patch (git checkout -- .), runs
the demonstration again, and records everything in seeded/<id>/meta.json.
"""
import json
import os
import shutil
import subprocess
import sys
import time

VERIF = os.path.dirname(os.path.abspath(__file__))
ALL = ['C11', 'C12', 'C15', 'C16', 'C17']


def sh(cmd, **kw):
    r = subprocess.run(cmd, shell=True, capture_output=True, text=True, **kw)
    return r.returncode, (r.stdout + r.stderr)


def main():
    sid, prop, src = sys.argv[1:4]
    others = '--others' in sys.argv
    dst = os.path.join(VERIF, 'seeded', sid)
    os.makedirs(dst, exist_ok=True)
    for f in ('patch.diff', 'demo.py', 'NOTES.md'):
        if os.path.abspath(src) != dst:
            shutil.copy(os.path.join(src, f), dst)
    meta = {'id': sid, 'property': prop,
            'written_by': 'independent sub-agent given only the property '
                          'text and a scratch worktree',
            'repo_head': sh('git -C /repo rev-parse --short HEAD')[1].strip()}
    # a scratch copy of /repo (tracked files of HEAD + the patch), so that
    # background runs that use /repo itself are not disturbed
    scratch = '/tmp/seedeval.' + sid
    shutil.rmtree(scratch, ignore_errors=True)
    code, out = sh(f'git -C /repo worktree add -q --detach {scratch} HEAD')
    assert code == 0, out
    try:
        code, out = sh(f'git -C {scratch} apply {dst}/patch.diff')
        assert code == 0, 'patch does not apply: ' + out
        env = dict(os.environ, PYTHONPATH=f'{scratch}/src',
                   DECIMALFP_FORCE_PYTHON_IMPL='1')
        code, out = sh(f'cd {scratch} && PYTHONPATH={scratch}/src '
                       '/venv/bin/python -m pytest -q -p '
                       'no:cacheprovider -n 8 tests 2>&1 | tail -1')
        meta['tests_with_change'] = out.strip()
        code, out = sh(f'cd {scratch} && /venv/bin/python {dst}/demo.py',
                       env=env)
        meta['demo_with_change'] = {'exit': code, 'tail': out[-600:]}
        res = {}
        for p in ([prop] + ([x for x in ALL if x != prop] if others else [])):
            t0 = time.time()
            code, out = sh(f'{VERIF}/check {p} --no-evidence',
                           env=dict(os.environ,
                                    VERIF_REPO_SRC=f'{scratch}/src',
                                    VERIF_REPLAY_DIR=os.path.join(
                                        dst, 'replays')))
            viol = [l for l in out.splitlines()
                    if l.startswith('violation run')]
            detail = [l for l in out.splitlines() if l.startswith('{"')]
            res[p] = {'exit': code, 'wall_s': round(time.time() - t0, 1),
                      'violations': viol[:3],
                      'first_detail': detail[0][:700] if detail else None}
            print(p, 'exit', code, viol[:1])
        meta['checks_with_change'] = res
        sh(f'git -C {scratch} checkout -- .')
        code, out = sh(f'cd {scratch} && /venv/bin/python {dst}/demo.py',
                       env=env)
        meta['demo_without_change'] = {'exit': code, 'tail': out[-300:]}
    finally:
        sh(f'git -C /repo worktree remove --force {scratch}')
    meta['caught'] = meta['checks_with_change'][prop]['exit'] == 1
    meta['confirmed'] = (meta['demo_with_change']['exit'] == 1 and
                         meta['demo_without_change']['exit'] == 0 and
                         'passed' in meta['tests_with_change'] and
                         'failed' not in meta['tests_with_change'])
    meta['needs_to_manifest'] = '(see NOTES.md)'
    try:        # keep what was recorded by hand on earlier evaluations
        old = json.load(open(os.path.join(dst, 'meta.json')))
        for k in ('needs_to_manifest', 'caught_initially', 'first_result',
                  'after_strengthening', 'what_i_ran'):
            if k in old:
                meta[k] = old[k]
    except (OSError, ValueError):
        pass
    with open(os.path.join(dst, 'meta.json'), 'w') as f:
        json.dump(meta, f, indent=1)
    print(json.dumps({k: meta[k] for k in ('confirmed', 'caught',
                                           'tests_with_change')}))
    shutil.rmtree(os.path.join(dst, 'replays'), ignore_errors=True)


if __name__ == '__main__':
    main()
