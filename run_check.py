"""./check <property> ...  (started as a script, never with -m)."""
import importlib
import os
import sys

sys.path.insert(0, os.path.dirname(os.path.abspath(__file__)))

CHECKS = {'C11': 'sim.c11', 'C12': 'sim.c12', 'C15': 'sim.c15',
          'C16': 'sim.c16', 'C17': 'sim.c17'}


def main(argv):
    if not argv or argv[0] not in CHECKS:
        print(f"usage: ./check <{'|'.join(CHECKS)}> [--tier quick|thorough] "
              f"[--replay FILE] [--runs N] [--budget SECONDS]")
        return 2
    from sim import driver
    mod = importlib.import_module(CHECKS[argv[0]])
    try:
        return driver.main(mod, argv[1:])
    except Exception:
        import traceback
        traceback.print_exc()
        print("HARNESS: the simulator failed; no verdict")
        return 2


if __name__ == '__main__':
    sys.exit(main(sys.argv[1:]))
