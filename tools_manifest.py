"""Regenerates MANIFEST.json (kept valid at all times)."""
import json
import os

HERE = os.path.dirname(os.path.abspath(__file__))
CLAIMED = {
    'C11': dict(
        ref='DESIGN.md 4.1',
        technique="deterministic simulation: seeded update/lookup histories "
                  "with clock jumps and mid-lookup clock ticks against real "
                  "MoneyConverter objects, RefRates reference model as "
                  "oracle, ddmin-minimised replay files",
        text="Seeded exploration of update/lookup/clock histories (a few "
             "thousand runs per quick batch, tens of thousands per thorough "
             "batch) with a full get_rate sweep "
             "after every step, compared with an independent last-write-wins "
             "model; the clock is simulated (jumps, ticks during a lookup). "
             "Evidence, not proof: histories are bounded (<=40 ops - one run in fifty up to 200 -, <=3 "
             "converters, <=5 currencies) and sampled.",
        note="Trusted: ExchangeRate arithmetic (expected rates are built by "
             "the library's constructor from the model-selected spec), "
             "decimalfp (pure-Python implementation), CPython, ~300 lines "
             "of model/oracle code. One open known finding: same-currency "
             "lookup raises (known_findings.json)."),
    'C12': dict(
        ref='DESIGN.md 4.2',
        technique="deterministic simulation: seeded program trees of "
                  "with-blocks, registrations, removals and exceptional "
                  "exits executed with genuine with statements, RefStack "
                  "reference model as oracle, ddmin-minimised replay files",
        text="Seeded exploration of register / unregister / enter / leave / "
             "leave-by-exception / convert histories for Money (LIFO stack) "
             "and a generic type (idempotent list); after every token the "
             "converter lists and every conversion are compared with a "
             "list-based model and with the first observation made in the "
             "same model state (restoration). Bounded (<=30 tokens, depth "
             "<=5) and sampled.",
        note="Trusted: the arithmetic of one converter called directly "
             "(the model only selects which converter answers), decimalfp "
             "(pure-Python implementation), CPython."),
    'C15': dict(
        ref='DESIGN.md 4.3',
        technique="deterministic simulation: seeded declaration histories "
                  "(valid and must-reject declarations in any order, memo "
                  "eviction) against the real global directories in a "
                  "forked world per run, RefDir reference model as oracle, "
                  "ddmin-minimised replay files",
        text="Seeded exploration of declaration histories (base / derived "
             "types, scaled, term-defined, derived units, currencies, and "
             "the declarations the statement says must be rejected) in a "
             "pristine interpreter state per run, with and without the "
             "predefined catalogue; after every step everything declared so "
             "far is checked against an independent model (identity under "
             "the symbol, listing by exactly its type, factory dispatch, "
             "exact Fraction scale, reference unit of derived types, the "
             "base type lists nothing). Bounded (<=50 steps) and sampled.",
        note="Trusted: ~500 lines of model/resolver code, decimalfp "
             "(pure-Python implementation), CPython. Whether every valid "
             "declaration is accepted is not part of the statement: "
             "refusals are followed and counted, not judged."),
    'C16': dict(
        ref='DESIGN.md 4.4',
        technique="deterministic simulation, differential: a history with "
                  "injected rejected declarations / converter updates runs "
                  "in one forked world, the same history with the rejected "
                  "steps deleted in a twin world; observation vectors are "
                  "compared after every step; ddmin-minimised replay files",
        text="Seeded exploration of histories in which any subset of steps "
             "is a declaration or converter update the library rejects (all "
             "kinds named by the statement, at every position), each "
             "compared step by step with its fault-free twin on everything "
             "visible through the public API, including later valid "
             "declarations that re-use the symbol or dimension of a "
             "rejected one. Bounded (<=40 steps) and sampled.",
        note="Trusted: the executor shared by both worlds, decimalfp "
             "(pure-Python implementation), CPython. A defect that is "
             "identical with and without the rejected steps is invisible "
             "to this oracle by construction."),
    'C17': dict(
        ref='DESIGN.md 4.5',
        technique="deterministic simulation, restart-and-compare: one "
                  "program (declarations + operations) is run as 3-6 "
                  "seeded histories (declaration orders, operations before "
                  "/ after their result type exists, repeated operations, "
                  "memo evictions, rejected declarations as noise), each "
                  "in a fresh forked interpreter state; results are "
                  "compared between histories",
        text="Seeded exploration of programs and, per program, of several "
             "evaluation histories in fresh worlds; every evaluation of an "
             "operation made while its result type (unit) is declared must "
             "give the same type and exact base-unit amount in all "
             "histories and positions, an operation that raised "
             "UndefinedResultError must not raise it after the missing "
             "declaration, and a repeated operation must return an equal "
             "result. Bounded (<=22 declarations, <=12 operations, <=6 "
             "histories per program) and sampled.",
        note="Trusted: the model only for the precondition 'result type / "
             "unit declared here', decimalfp (pure-Python implementation), "
             "CPython. A value that is wrong in the same way in all "
             "histories is invisible to this oracle by construction."),
}
NA = {
    'C01': "pure function of (amount, unit, unit) once units are declared; no schedule, clock, fault or history in the statement. The residue 'a declared chain has the scale it denotes' is exercised by the C15 check.",
    'C02': "pure function of the operands given the set of declared types; its only history dependence (operation memo, first-registered-wins) is the statement of C17 and is decided there.",
    'C03': "pure: +, -, comparison read no state beyond their operands.",
    'C04': "pure: equality / ordering are functions of the two operands.",
    'C05': "pure per (operation, operands, active rounding mode); the rounding mode is a configuration value, not a history.",
    'C06': "pure: allocation is a function of (quantity, ratios, flag); 'receiver unchanged' is a no-aliasing fact about one call.",
    'C07': "pure: group laws of the term algebra over inputs; memo fields are exercised incidentally by C15/C17 (eviction fault).",
    'C08': "exhaustive over a static table plus pure operator behaviour; the single file read at import has no fault clause in the statement. Registration idempotence is exercised inside C15/C16 histories.",
    'C09': "pure: ExchangeRate is immutable and built from its arguments only.",
    'C10': "pure given the declared compound units.",
    'C13': "pure per (amount, quantum, rounding mode).",
    'C14': "pure per (table, amount, units); registration-order effects are the generic-type clause of C12.",
    'C18': "pure given the symbol directory; 'string -> instance of the unit's type' after arbitrary histories is decided under C15.",
    'C19': "pure: a relation between two objects' hash and equality.",
    'C20': "a static table compared with SI; nothing to simulate.",
}


def build():
    checks = []
    for pid in sorted(CLAIMED):
        if not os.path.exists(os.path.join(HERE, 'sim', pid.lower() + '.py')):
            continue
        c = CLAIMED[pid]
        checks.append({
            'property_id': pid,
            'quick_cmd': f'./check {pid} --tier quick',
            'thorough_cmd': f'./check {pid} --tier thorough',
            'evidence_file': f'/verif/evidence/{pid}.json',
            'replay_cmd_template': f'./check {pid} --replay {{path}}',
            'engine': 'sim',
            'level_claimed': {'category': 'exploration', 'text': c['text'],
                              'design_ref': c['ref']},
            'level_note': c['note'],
            'technique': c['technique'],
        })
    claimed_now = {c['property_id'] for c in checks}
    na = [{'property_id': k, 'reason': v} for k, v in sorted(NA.items())]
    for pid in sorted(CLAIMED):
        if pid not in claimed_now:
            na.append({'property_id': pid,
                       'reason': 'simulation target (see DESIGN.md), check '
                                 'not built yet - not claimed for now'})
    na.sort(key=lambda e: e['property_id'])
    return {
        'version': 1,
        'setup_cmd': "test -x /venv/bin/python && /venv/bin/python -c 'import decimalfp' && chmod +x /verif/check",
        'hooks': {
            'guard': 'QUANTITY_VERIF',
            'enable': 'no source hook exists or is needed: the simulator uses seams the library already has (get_dflt_effective_date callable, module-level date in quantity.money, caller-supplied converters, one forked interpreter state per world); the guard name is reserved and unused',
            'baseline_off_cmd': 'cd /repo && /venv/bin/python -m pytest -ra -q -p no:cacheprovider --timeout=900 --continue-on-collection-errors',
            'source_commits': [],
            'add_only': True,
        },
        'engines': [{
            'name': 'sim', 'path': '/verif/sim',
            'serves_properties': sorted(claimed_now),
            'kind_free_text': 'hand-written deterministic simulator: fork-per-world isolation, splitmix64-derived PRNG per run, JSON op histories, reference models, ddmin minimiser, replay files (python, stdlib only)'}],
        'checks': checks,
        'not_applicable': na,
        'notes': "Technique family: deterministic simulation with fault injection. Fixes of genuine defects are 'fix:' commits in /repo, listed in /verif/known_findings.json (status fixed); open findings are listed there too. Exit codes: 0 held, 1 violation (with VIOLATION line), 2 simulator failure (no verdict).",
    }


if __name__ == '__main__':
    m = build()
    with open(os.path.join(HERE, 'MANIFEST.json'), 'w') as f:
        json.dump(m, f, indent=1)
    print('claimed:', [c['property_id'] for c in m['checks']])
