"""Declarations: reference model of the directory (RefDir), resolution of
generated *intents* into concrete declaration *actions* (pure data, objects
named by type name / unit symbol), and execution of actions against the real
library.

RefDir imports nothing from `quantity`: base types are dimension letters, a
type is (name, dimension vector, merged declared definition, reference symbol,
quantum, unit symbols), a unit is (symbol, type, factor relative to the type's
reference unit as Fraction, or None for types without one).
"""
from __future__ import annotations

from fractions import Fraction

PREFIXES = {'NANO': -9, 'MICRO': -6, 'MILLI': -3, 'CENTI': -2, 'DECI': -1,
            'DECA': 1, 'HECTO': 2, 'KILO': 3, 'MEGA': 6, 'GIGA': 9}
ISO_CODES = ['EUR', 'USD', 'HKD', 'JPY', 'CHF', 'TND', 'GBP']


def num_value(spec) -> Fraction:
    """Exact value of a numspec."""
    t, v = spec['t'], spec['v']
    if t == 'prefix':
        return Fraction(10) ** PREFIXES[v]
    if t == 'float':
        return Fraction(float(v))
    return Fraction(v)


def dim_key(dim: dict):
    return tuple(sorted((k, e) for k, e in dim.items() if e != 0))


def dim_add(a: dict, b: dict, mult: int = 1) -> dict:
    out = dict(a)
    for k, e in b.items():
        out[k] = out.get(k, 0) + e * mult
        if out[k] == 0:
            del out[k]
    return out


class RefDir:
    def __init__(self):
        self.types = {}      # name -> dict
        self.units = {}      # symbol -> dict
        self.order = []      # type names in declaration order
        self.uorder = []     # unit symbols in declaration order
        self.dims = {}       # dim_key -> type name
        self.counter = 0
        self.add_type('Money', base=True, ref_sym=None, quantum=None,
                      items=None, money=True)

    # ---- state changes
    def related(self, a, b):
        """Is one of the types declared as (indirect) sub-class of the
        other?"""
        def ancestors(t):
            out = []
            while t is not None and t in self.types:
                out.append(t)
                t = self.types[t].get('parent')
            return out
        return a in ancestors(b) or b in ancestors(a)

    def add_type(self, name, base, ref_sym, quantum, items, money=False,
                 catalogue=False):
        if base:
            dim = {name: 1}
            merged = None
        else:
            merged = merge_items(items)
            dim = {}
            for tn, e in merged:
                dim = dim_add(dim, self.types[tn]['dim'], e)
        t = {'name': name, 'base': base, 'dim': dim, 'items': merged,
             'ref': ref_sym, 'quantum': quantum, 'units': [],
             'money': money, 'catalogue': catalogue}
        self.types[name] = t
        self.order.append(name)
        self.dims[dim_key(dim)] = name
        if ref_sym is not None:
            bvec = None
            if not base:
                bvec = {}
                for tn, e in merged:
                    rs = self.types[tn]['ref']
                    if rs is None:      # not generated (see DESIGN)
                        bvec = None
                        break
                    bvec = dim_add(bvec, self.units[rs]['bvec'], e)
            self.add_unit(ref_sym, name, Fraction(1), kind='ref',
                          bvec=bvec, num=Fraction(1))
        return t

    def add_unit(self, sym, tname, factor, kind, vec=None, num=None,
                 bvec=None):
        """`bvec`/`num`: expansion into base units (units without a
        definition) with numeric factor; derived here when not given."""
        if bvec is None:
            bvec, num = {sym: 1}, Fraction(1)
        self.units[sym] = {'sym': sym, 'type': tname, 'factor': factor,
                           'kind': kind, 'vec': vec, 'bvec': bvec,
                           'num': num}
        self.uorder.append(sym)
        self.types[tname]['units'].append(sym)

    def expand(self, items, k=None):
        """(base-unit vector, numeric factor) of a product of units."""
        num = Fraction(1) if k is None else num_value(k)
        bvec = {}
        for sym, e in items:
            u = self.units[sym]
            num *= u['num'] ** e
            bvec = dim_add(bvec, u['bvec'], e)
        return bvec, num

    def result_exists(self, bvec, num):
        """Is a unit declared that the product (bvec, num) resolves to:
        one with exactly this expansion, or one with this base-unit vector
        and no numeric factor?"""
        key = dim_key(bvec)
        for u in self.units.values():
            if dim_key(u['bvec']) == key and (u['num'] == 1 or
                                              u['num'] == num):
                return True
        return False

    def fresh(self):
        self.counter += 1
        return self.counter

    # ---- queries
    def has_ref(self, tname):
        return self.types[tname]['ref'] is not None

    def term_dim(self, items):
        dim = {}
        for sym, e in items:
            dim = dim_add(dim, self.types[self.units[sym]['type']]['dim'], e)
        return dim

    def term_factor(self, items, k=None):
        f = Fraction(1) if k is None else num_value(k)
        for sym, e in items:
            uf = self.units[sym]['factor']
            if uf is None:
                return None
            f *= uf ** e
        return f

    def types_with_ref(self):
        return [n for n in self.order if self.types[n]['ref'] is not None]

    def user_types(self):
        return [n for n in self.order]


def merge_items(items):
    """Declared definition after the library's documented reduction: equal
    elements are merged in order of first occurrence, zero exponents go."""
    out = []
    for tn, e in items:
        for i, (n2, e2) in enumerate(out):
            if n2 == tn:
                out[i] = (tn, e2 + e)
                break
        else:
            out.append((tn, e))
    return [(n, e) for n, e in out if e != 0]


# --------------------------------------------------------------------------
# intents -> concrete actions

def _pick(lst, r):
    return lst[r % len(lst)] if lst else None


NUMS = [
    {'t': 'int', 'v': '1000'}, {'t': 'int', 'v': '60'}, {'t': 'int', 'v': '12'},
    {'t': 'int', 'v': '3'}, {'t': 'int', 'v': '2'},
    {'t': 'dec', 'v': '0.001'}, {'t': 'dec', 'v': '2.54'},
    {'t': 'dec', 'v': '0.3048'}, {'t': 'dec', 'v': '1.5'},
    {'t': 'dec', 'v': '0.000000001'}, {'t': 'dec', 'v': '1609.344'},
    {'t': 'dec', 'v': '1609.3472'},
    {'t': 'dec', 'v': '3.0000000000000000000000000000071'},
    {'t': 'frac', 'v': '1/3'}, {'t': 'frac', 'v': '7/5'},
    {'t': 'frac', 'v': '1/8'}, {'t': 'frac', 'v': '22/7'},
    # a Fraction that happens to be integral
    {'t': 'frac', 'v': '3'}, {'t': 'frac', 'v': '7'},
    {'t': 'float', 'v': '0.5'}, {'t': 'float', 'v': '0.25'},
    {'t': 'float', 'v': '2.5'},
    # a float that is not what it looks like (0.1 is 3602879701896397 / 2**55)
    # and a ratio with a 32-digit numerator: exact all the same
    {'t': 'float', 'v': '0.1'},
    {'t': 'frac', 'v': '10000000000000000000000000000019/3'},
    {'t': 'prefix', 'v': 'KILO'}, {'t': 'prefix', 'v': 'MILLI'},
    {'t': 'prefix', 'v': 'NANO'}, {'t': 'prefix', 'v': 'MEGA'},
    {'t': 'prefix', 'v': 'CENTI'}, {'t': 'prefix', 'v': 'HECTO'},
]
INT_NUMS = [n for n in NUMS if n['t'] == 'int' or
            (n['t'] == 'prefix' and PREFIXES[n['v']] > 0)]
QUANTA = ['1/8', '1/100', '1/2', '1/1000', '1', '1/3', '1/7']


def class_name(model: RefDir, unique, r):
    """The Python class name of a new type.  Class names need not be unique
    (two modules may both define a `Level`); the model and the executor
    refer to types by the unique name, the class gets this one."""
    user = [t for t in model.order if not model.types[t]['money']
            and not model.types[t]['catalogue']]
    if user and r % 8 == 0:
        return model.types[user[r // 8 % len(user)]].get('clsname') or \
            user[r // 8 % len(user)]
    return unique


def fresh_symbol(model: RefDir, prefix, n, r):
    """A fresh, legal unit symbol.  Symbols are arbitrary non-empty strings:
    blanks ('ft lb' style), non-ASCII letters, digits first, a first word
    that is another unit's symbol."""
    k = r % 12
    base = f'{prefix}{n}'
    if k == 0:
        return f'{base} x'
    if k == 1:
        return f'µ{base}'
    if k == 2:
        return f'{n}{prefix}'
    if k == 3 and model.uorder:
        return f'{model.uorder[r % len(model.uorder)]} {base}'
    if k == 4:
        return f'°{base}'
    if k == 5:
        return f'{base}.b-c'
    if k == 7:
        return f'{base} '       # padded: a symbol is taken as it is given
    if k == 8:
        # characters that Unicode normalisation would rewrite (OHM SIGN,
        # ANGSTROM SIGN, a decomposed A-ring): a symbol is taken as given
        return ['\u2126', '\u212b', 'A\u030a', '\u212a'][r // 12 % 4] + base
    if k == 9 and r // 12 % 2 == 0:
        # an ISO 4217 code as symbol of a unit that is no currency
        code = ISO_CODES[r // 24 % len(ISO_CODES)]
        if code not in model.units:
            return code
    if k == 10 and model.uorder:
        # the ASCII spelling of an existing symbol with special characters
        # (m2 next to m², kg*m next to kg·m): a symbol of its own
        tr = str.maketrans({'²': '2', '³': '3', '⁴': '4', '¹': '1',
                            '⁰': '0', '⁻': '-', '·': '*', 'µ': 'u',
                            '°': 'deg'})
        for off in range(len(model.uorder)):
            cand = model.uorder[(r + off) % len(model.uorder)]
            twin = cand.translate(tr)
            if twin != cand and twin not in model.units and twin.strip() \
                    and twin == twin.strip():
                return twin
    if k == 11 and getattr(model, 'composite_symbols', False):
        # a symbol that looks like a generated one (m/s, a·b, m²) - and
        # will clash with the symbol generated for a derived type later on
        refs = [model.types[t]['ref'] for t in model.order
                if model.types[t]['base'] and model.types[t]['ref']
                and not model.types[t]['catalogue']
                and model.types[t]['ref'].isalnum()
                and lib_sym(model.types[t]['ref']) is
                model.types[t]['ref']]
        if refs:
            a_ = refs[r // 12 % len(refs)]
            b_ = refs[r // 144 % len(refs)]
            cand = [f'{a_}/{b_}', f'{a_}·{b_}', f'{a_}²', f'{b_}·{a_}',
                    f'1/{a_}', f'{a_}/{b_}²'][r // 36 % 6] if a_ != b_ \
                else [f'{a_}²', f'1/{a_}', f'{a_}³'][r // 36 % 3]
            if cand not in model.units:
                return cand
    if k == 6 and model.uorder:
        # differs from an existing symbol only by case
        other = model.uorder[r % len(model.uorder)].swapcase()
        if other not in model.units and other.strip():
            return other
    return base


def parent_type(model: RefDir, salt):
    """One declaration in six is written as sub-class of a type declared
    earlier (not of Money: a type derived from Money has no unit class of
    its own in this library)."""
    if salt % 6:
        return None
    cands = [t for t in model.order if not model.types[t]['money']]
    return _pick(cands, salt // 6)


def resolve(model: RefDir, op):
    """Deterministically turn an intent (kind, r0, r1, ...) into a concrete
    action for the current model state, or None (recorded no-op).
    Every action carries `expect` in {'accept', 'reject', 'follow'}."""
    kind = op[0]
    r = op[1:] + [0] * 12
    n = model.fresh()
    types = model.order
    deco = r[10] * 31 + r[11]
    if kind == 'base_type':
        ref = bool(r[0] % 4)            # 3 of 4 have a reference unit
        q = QUANTA[r[1] % len(QUANTA)] if ref and r[2] % 5 == 0 else None
        return {'a': 'base_type', 'name': f'T{n}',
                'clsname': class_name(model, f'T{n}', r[3]),
                'ref_sym': fresh_symbol(model, 'r', n, deco) if ref else None,
                'quantum': q, 'parent': parent_type(model, r[3] + r[1]),
                'expect': 'accept'}
    if kind in ('derived_type', 'dup_dimension'):
        rerun = None
        cands = [t for t in types]
        if kind == 'dup_dimension':
            taken = [t for t in types if not model.types[t]['base']] or \
                [t for t in types if not model.types[t]['money']]
            tgt = _pick(taken, r[0])
            if tgt is None:
                return None
            items = _rewrite_dim(model, tgt, r[1], r[2])
            if r[3] % 3 == 0 and model.types[tgt].get('items') and \
                    model.types[tgt].get('clsname'):
                # the very same class statement executed once more (a
                # module reloaded, a notebook cell run again)
                rerun = tgt
                items = [list(it) for it in model.types[tgt]['items']]
        else:
            k = 1 + r[0] % 3
            items = []
            for i in range(k):
                tn = _pick(cands, r[1 + 2 * i])
                # (10, -11: more than a superscript digit can show)
                e = [1, 1, 1, -1, -1, 2, 2, -2, 3, -3, 1, 2, -1, 10,
                     -11, 4, -4][r[2 + 2 * i] % 17]
                items.append([tn, e])
        dim = {}
        for tn, e in merge_items(items):
            dim = dim_add(dim, model.types[tn]['dim'], e)
        all_ref = all(model.has_ref(tn) for tn, _ in items)
        symmode = r[8] % 4      # 0: auto symbol, else explicit
        ref_sym = None
        quantum = None
        if all_ref and symmode != 0:
            ref_sym = fresh_symbol(model, 'r', n, deco)
            if r[9] % 6 == 0:
                quantum = QUANTA[r[10] % len(QUANTA)]
        if not dim:
            # a dimensionless derived type: the statement is silent
            return None
        if kind == 'derived_type' and \
                max(abs(v) for v in dim.values()) > 30:
            # powers of powers of powers: scales with tens of thousands of
            # digits cost minutes per operation (a long history of the
            # thorough tier ran into the wall limit that way) - bounded
            return None
        if dim_key(dim) in model.dims:
            expect = 'reject'
            if ref_sym is None and r[8] % 2:
                # also over base types without reference unit: whatever the
                # library does with the symbol, the declaration is rejected
                # and must leave nothing behind
                ref_sym = f'r{n}'
        elif all_ref and ref_sym is None:
            expect = 'follow'       # generated symbol may collide
        else:
            expect = 'accept'
        return {'a': 'derived_type', 'name': f'D{n}',
                'clsname': model.types[rerun]['clsname'] if rerun else
                class_name(model, f'D{n}', r[7]),
                'parent': parent_type(model, r[7] + r[9]),
                'items': items,
                'style': r[11] % 3, 'ref_sym': ref_sym, 'auto_ref': all_ref
                and ref_sym is None, 'quantum': quantum, 'expect': expect,
                'dup_dim': expect == 'reject',
                **({'bad': 'dup_dimension'} if expect == 'reject' else {})}
    if kind == 'scaled_unit':
        tn = _pick(model.types_with_ref(), r[0])
        if getattr(model, 'noref_scaled', False) and r[5] % 4 == 0:
            # a multiple of a unit of a base type WITHOUT reference unit:
            # convertible to the units built on the same unit by its
            # scale, to the others not at all
            cands = [x for x in types if model.types[x]['base'] and
                     model.types[x]['ref'] is None and
                     not model.types[x]['money'] and
                     not model.types[x]['catalogue'] and
                     model.types[x]['units']]
            tn = _pick(cands, r[0]) or tn
        if tn is None:
            return None
        t = model.types[tn]
        parent = _pick(t['units'], r[1]) if r[3] % 3 else t['units'][-1]
        k = _pick(INT_NUMS if t['quantum'] is not None else NUMS, r[2])
        if t['quantum'] is not None:
            # k * parent is itself a quantity and gets rounded to the
            # parent's quantum; only exact multiples denote k * parent
            m = num_value(k) * model.units[parent]['factor'] / t['quantum']
            if m.denominator != 1:
                return None
        return {'a': 'scaled_unit', 'type': tn,
                'sym': fresh_symbol(model, 'u', n, deco),
                # (ctor: Cls(amount, unit) with the amount as instance of the
                # standard library's decimal.Decimal)
                'parent': parent, 'k': k,
                'via': 'ctor' if k['t'] == 'dec' and r[4] % 3 == 2 else
                ['rmul', 'mul'][r[4] % 2]
                if k['t'] != 'prefix' else 'rmul', 'expect': 'accept'}
    if kind == 'price_type':
        # Money per something: a derived type that cannot have a reference
        # unit; its operations are defined by its *units*
        cands = [t for t in types if not model.types[t]['money']
                 and model.types[t]['units']]
        tn = _pick(cands, r[0])
        if tn is None:
            return None
        items = [['Money', 1], [tn, -1]] if r[1] % 3 else \
            [['Money', 1], [tn, 1]]
        dim = {}
        for x, e in items:
            dim = dim_add(dim, model.types[x]['dim'], e)
        if not dim or dim_key(dim) in model.dims:
            return None
        return {'a': 'derived_type', 'name': f'D{n}', 'items': items,
                'style': r[2] % 3, 'ref_sym': None, 'auto_ref': False,
                'quantum': None, 'expect': 'accept', 'dup_dim': False}
    if kind == 'alias_unit':
        # a unit with the same scale as an existing one, reached by another
        # route: k = scale(target) / scale(parent), as a Fraction
        cands = [tn for tn in model.types_with_ref()
                 if model.types[tn]['quantum'] is None
                 and len(model.types[tn]['units']) >= 2]
        tn = _pick(cands, r[0])
        if tn is None:
            return None
        t = model.types[tn]
        parent = _pick(t['units'][1:], r[1])
        target = _pick(t['units'], r[2]) if r[3] % 2 else t['units'][0]
        if model.units[target]['factor'] is None or \
                model.units[parent]['factor'] is None:
            return None
        k = model.units[target]['factor'] / model.units[parent]['factor']
        if k.numerator.bit_length() > 6000 or \
                k.denominator.bit_length() > 6000:
            # (a ratio of some thousand digits: not spelled out)
            return None
        return {'a': 'scaled_unit', 'type': tn, 'sym': f'u{n}',
                'parent': parent, 'k': {'t': 'frac', 'v': str(k)},
                'via': ['rmul', 'mul'][r[4] % 2], 'expect': 'accept',
                'alias_of': target}
    if kind in ('term_unit', 'wrong_dim_term'):
        cands = [tn for tn in model.types_with_ref()
                 if not model.types[tn]['base'] or r[8] % 4 == 0
                 or kind == 'wrong_dim_term']
        tn = _pick(cands, r[0])
        if tn is None:
            return None
        items = _term_for(model, tn, r[1:6])
        if items is None:
            return None
        int_terms = getattr(model, 'int_terms', None)
        force_int = kind == 'term_unit' and int_terms is not None and \
            r[10] % 5 == 0
        if force_int and int_terms and r[9] % 2 and \
                int_terms[-1] in model.types:
            # (for the type that got such a unit before: the quotient of
            # the two scales is a quotient of two plain ints)
            items2 = _term_for(model, int_terms[-1], r[1:6])
            if items2 is not None:
                tn, items = int_terms[-1], items2
        if r[6] % 5 == 0:
            # hour / second next to the rest: two different units of one
            # type whose exponents cancel - the dimension stays, the scale
            # takes their ratio
            many = [x for x in model.types_with_ref()
                    if len(model.types[x]['units']) >= 2]
            xt = _pick(many, r[3])
            if xt is not None:
                us = model.types[xt]['units']
                u1 = _pick(us, r[4])
                u2 = _pick([u for u in us if u != u1], r[5])
                e = [1, 1, 2][r[2] % 3]
                pos = r[1] % (len(items) + 1)
                items = items[:pos] + [[u1, e]] + items[pos:] + [[u2, -e]]
        k = None
        nums = []
        if r[7] % 2 == 0:
            # numeric elements, also with exponents other than 1 (what
            # `term / number` or `number ** -2 * term` produce)
            for j in range(1 + r[9] % 2):
                nums.append([_pick(NUMS, r[6] + 7 * j),
                             [1, -1, -1, 2, -2, 1][(r[10] + j) % 6]])
        if force_int:
            # a plain int as the only numeric element of the term
            nums = [[_pick([x for x in NUMS if x['t'] == 'int'], r[6]), 1]]
        target = tn
        expect = 'accept'
        near = [d for d in getattr(model, 'term_defs', [])
                if d['type'] in model.types and
                all(s in model.units for s, _ in d['items'])]
        if kind == 'wrong_dim_term' and near and r[9] % 3 == 0:
            # a near miss of a definition that was accepted before: the
            # same term with one exponent off by one (-1 / -2 in
            # particular), declared for the same type - another dimension
            d = near[r[1] % len(near)]
            items = [list(it) for it in d['items']]
            pos = [j for j, (_s, e) in enumerate(items) if e in (-1, -2)] \
                or list(range(len(items)))
            j = pos[r[2] % len(pos)]
            items[j][1] = {-1: -2, -2: -1, 1: 2, 2: 1}.get(
                items[j][1], items[j][1] + 1)
            dim = {}
            for s, e in items:
                dim = dim_add(dim, model.types[model.units[s]['type']]['dim'],
                              e)
            if dim_key(dim) != dim_key(model.types[d['type']]['dim']):
                return {'a': 'term_unit', 'type': d['type'],
                        'sym': fresh_symbol(model, 'u', n, deco),
                        'items': items, 'k': d['k'], 'nums': d['nums'] or [],
                        'spell': d['spell'] or 0, 'expect': 'reject',
                        'bad': 'wrong_dimension', 'near_miss': True}
        if kind == 'wrong_dim_term' and r[9] % 3 == 2:
            # dimensionally right, but no unit: two units of a type WITHOUT
            # reference unit whose reference-less parts differ (EUR/kg and
            # HKD/g) do not cancel - (a * d1 / d2) is not a multiple of a
            pairs_ = []
            for dn in model.order:
                dt_ = model.types[dn]
                if dt_['ref'] is not None:
                    continue
                us_ = [s_ for s_ in dt_['units']
                       if model.units[s_].get('bvec') is not None]
                for x_ in us_:
                    for y_ in us_:
                        if x_ != y_ and model.units[x_]['bvec'] != \
                                model.units[y_]['bvec']:
                            pairs_.append((x_, y_))
            if pairs_ and model.types[tn]['ref'] is not None:
                d1, d2 = pairs_[r[1] % len(pairs_)]
                return {'a': 'term_unit', 'type': tn,
                        'sym': fresh_symbol(model, 'u', n, deco),
                        'items': [[model.types[tn]['ref'], 1], [d1, 1],
                                  [d2, -1]], 'k': None, 'nums': [],
                        'spell': 0, 'expect': 'reject',
                        'bad': 'wrong_dimension', 'unconvertible': True}
        if kind == 'wrong_dim_term' and r[9] % 3 == 1:
            # a term whose units cancel (km/m, 12 * s**2 / s**2): it denotes
            # a plain number, no unit of any type
            us = model.types[tn]['units']
            u1, u2 = _pick(us, r[1]), _pick(us, r[2])
            e = [1, 2, 1][r[3] % 3]
            return {'a': 'term_unit', 'type': tn,
                    'sym': fresh_symbol(model, 'u', n, deco),
                    'items': [[u1, e], [u2, -e]], 'k': None, 'nums': nums,
                    'spell': r[11] % 7, 'expect': 'reject',
                    'bad': 'wrong_dimension', 'cancels': True}
        if kind == 'wrong_dim_term':
            others = [x for x in model.types_with_ref() if x != tn]
            target = _pick(others, r[8])
            if target is None:
                return None
            expect = 'reject'
        act = {'a': 'term_unit', 'type': target,
               'sym': fresh_symbol(model, 'u', n, deco), 'items': items, 'k': k, 'nums': nums, 'spell': r[11] % 7,
               'expect': expect}
        if expect == 'reject':
            act['bad'] = 'wrong_dimension'
        return act
    if kind in ('derive_unit', 'derive_bad'):
        cands = [tn for tn in types if not model.types[tn]['base']]
        tn = _pick(cands, r[0])
        if tn is None:
            if kind == 'derive_bad':
                base = _pick([x for x in types
                              if model.types[x]['base']], r[0])
                u = _pick(model.types[base]['units'], r[1])
                if u is None:
                    return None
                return {'a': 'derive_unit', 'type': base, 'units': [u],
                        'sym': f'u{n}', 'expect': 'reject',
                        'bad': 'on_base'}
            return None
        t = model.types[tn]
        units = []
        for i, (bn, e) in enumerate(t['items']):
            u = _pick(model.types[bn]['units'], r[1 + i])
            if u is None:
                return None
            units.append(u)
        sym = fresh_symbol(model, 'u', n, deco) if r[6] % 3 else None
        if kind == 'derive_unit' and r[9] % 2 == 0 and t['ref'] is not None:
            # another route to the scale of a unit the type has already
            # (dam/s and cm/ms): same normal form, other units, other text
            import itertools
            have = {model.units[s]['factor'] for s in t['units']}
            pools = [model.types[bn]['units'][:6] for bn, _e in t['items']]
            found = []
            for combo in itertools.islice(itertools.product(*pools), 400):
                if list(combo) == units:
                    continue
                try:
                    f = model.term_factor(
                        [(u, e) for u, (_b, e) in zip(combo, t['items'])])
                except Exception:       # noqa
                    continue
                if f in have:
                    found.append(list(combo))
            alias = _pick(found, r[10])
            if alias is not None:
                units = alias
                if r[11] % 3:
                    sym = None      # ... under a generated symbol
        if kind == 'derive_unit':
            return {'a': 'derive_unit', 'type': tn, 'units': units,
                    'sym': sym, 'expect': 'accept' if sym else 'follow'}
        mode = r[7] % 3
        if mode == 0:
            base = _pick([x for x in types if model.types[x]['base'] and
                          model.types[x]['units']], r[8])
            if base is None:
                return None
            return {'a': 'derive_unit', 'type': base,
                    'units': [model.types[base]['units'][0]],
                    'sym': f'u{n}', 'expect': 'reject', 'bad': 'on_base'}
        if mode == 1:
            bad = units + [units[-1]] if r[9] % 2 else units[:-1]
            return {'a': 'derive_unit', 'type': tn, 'units': bad,
                    'sym': f'u{n}', 'expect': 'reject', 'bad': 'count'}
        # a unit of another type in one position
        pos = r[9] % len(units)
        want = t['items'][pos][0]
        others = [s for s in model.uorder
                  if model.units[s]['type'] != want]
        o = _pick(others, r[10])
        if o is None:
            return None
        bad = list(units)
        bad[pos] = o
        return {'a': 'derive_unit', 'type': tn, 'units': bad,
                'sym': f'u{n}', 'expect': 'reject', 'bad': 'type'}
    if kind == 'plain_unit':
        cands = [tn for tn in types if model.types[tn]['base'] and
                 model.types[tn]['ref'] is None and
                 not model.types[tn]['money']]
        tn = _pick(cands, r[0])
        if tn is None:
            return None
        return {'a': 'plain_unit', 'type': tn,
                'sym': fresh_symbol(model, 'u', n, deco),
                'expect': 'accept'}
    if kind == 'currency_reg':
        code = ISO_CODES[r[0] % len(ISO_CODES)]
        if code in model.units and model.units[code]['type'] != 'Money':
            # the code is the symbol of a unit of another type
            return {'a': 'currency_reg', 'code': code, 'expect': 'reject',
                    'bad': 'dup_symbol'}
        return {'a': 'currency_reg', 'code': code, 'expect': 'accept'}
    if kind == 'currency_new':
        minor = [None, 0, 2, 3][r[0] % 4]
        sf = None
        if r[1] % 3 == 0:
            sf = {None: '0.05', 0: '1', 2: '0.05', 3: '0.005'}[minor]
        return {'a': 'currency_new', 'sym': f'C{n}', 'minor': minor,
                'sf': sf, 'expect': 'accept'}
    if kind == 'dup_symbol':
        syms = model.uorder
        s = _pick(syms, r[0])
        if s is None:
            return None
        form = r[1] % 5
        if form == 4:
            # a derived type of a fresh dimension whose reference symbol is
            # taken: rejected, and the dimension must stay available
            act = resolve(model, ['derived_type'] + r[2:12] + [0, 0])
            if act is None or act['expect'] == 'reject' or \
                    not (act['ref_sym'] or act['auto_ref']):
                return None
            act.update(ref_sym=s, auto_ref=False, expect='reject',
                       bad='dup_symbol')
            return act
        if form == 0:       # a new base type whose reference unit is taken
            return {'a': 'base_type', 'name': f'T{n}', 'ref_sym': s,
                    'quantum': None, 'expect': 'reject', 'bad': 'dup_symbol'}
        if form == 1:
            tn = _pick(model.types_with_ref(), r[2])
            if tn is None:
                return None
            # (off any unit of the type, mostly one that is itself derived
            # from another: the rejected definition refers to a chain)
            us = model.types[tn]['units']
            return {'a': 'scaled_unit', 'type': tn, 'sym': s,
                    'parent': _pick(us[1:], r[6]) if len(us) > 1 and r[7] % 4
                    else us[0],
                    'k': _pick(INT_NUMS, r[3]), 'via': ['rmul', 'mul'][
                        r[8] % 2],
                    'expect': 'reject', 'bad': 'dup_symbol'}
        if form == 2:
            cands = [tn for tn in types if model.types[tn]['base'] and
                     model.types[tn]['ref'] is None and
                     not model.types[tn]['money']]
            tn = _pick(cands, r[2])
            if tn is None:
                return None
            return {'a': 'plain_unit', 'type': tn, 'sym': s,
                    'expect': 'reject', 'bad': 'dup_symbol'}
        return {'a': 'currency_new', 'sym': s,
                'minor': [2, 0, 3, None][r[4] % 4],
                'sf': [None, None, '0.5'][r[5] % 3] if r[4] % 4 == 3
                else None, 'expect': 'reject', 'bad': 'dup_symbol'}
    if kind == 'empty_symbol':
        form = r[0] % 3
        if form == 0:
            tn = _pick(model.types_with_ref(), r[1])
            if tn is None:
                return None
            us = model.types[tn]['units']
            return {'a': 'scaled_unit', 'type': tn, 'sym': '',
                    'parent': _pick(us[1:], r[6]) if len(us) > 1 and r[7] % 4
                    else us[0],
                    'k': _pick(INT_NUMS, r[2]), 'via': 'rmul',
                    'expect': 'reject', 'bad': 'empty_symbol'}
        if form == 1:
            return {'a': 'currency_new', 'sym': '', 'minor': 2, 'sf': None,
                    'expect': 'reject', 'bad': 'empty_symbol'}
        cands = [tn for tn in types if not model.types[tn]['base']]
        tn = _pick(cands, r[1])
        if tn is None:
            return None
        t = model.types[tn]
        units = []
        for i, (bn, e) in enumerate(t['items']):
            u = _pick(model.types[bn]['units'], r[2 + i])
            if u is None:
                return None
            units.append(u)
        return {'a': 'derive_unit', 'type': tn, 'units': units, 'sym': '',
                'expect': 'reject', 'bad': 'empty_symbol'}
    if kind == 'wrong_type_scaled':
        tn = _pick(model.types_with_ref(), r[0])
        if tn is None:
            return None
        # (also between a type and a type declared as its sub-class: a
        # type of its own, with a dimension of its own)
        others = [s for s in model.uorder if model.units[s]['type'] != tn]
        o = _pick(others, r[1])
        if o is None:
            return None
        return {'a': 'scaled_unit', 'type': tn, 'sym': f'u{n}',
                'parent': o, 'k': _pick(INT_NUMS, r[2]), 'via': 'rmul',
                'expect': 'reject', 'bad': 'wrong_type'}
    if kind == 'evict':
        return {'a': 'evict', 'expect': 'accept'}
    if kind == 'term_noise':
        # term arithmetic that declares nothing: terms with plain ints and
        # floats (also to negative powers), hashed, rendered, compared
        u = _pick(model.uorder, r[0])
        if u is None:
            return None
        return {'a': 'term_noise', 'unit': u,
                'unit2': _pick(model.uorder, r[3]),
                'n': [10, 2, 3, 1000][r[1] % 4],
                'e': [-1, -2, 1, -3][r[2] % 4], 'expect': 'accept'}
    raise ValueError(f"unknown intent {op}")


def _rewrite_dim(model, tgt, r1, r2):
    """Another way to write the dimension of the declared type `tgt`."""
    t = model.types[tgt]
    style = r1 % 4
    if t['base']:
        # tgt ** 1 or tgt * X / X
        others = [x for x in model.order if x != tgt]
        x = _pick(others, r2)
        ds = [y for y in model.order if not model.types[y]['base']
              and model.types[y]['dim']]
        if style == 3 and ds:
            d = _pick(ds, r2)
            return [[tgt, 1], [d, 1]] + [[b, -e] for b, e in
                                         sorted(model.types[d]['dim'].items())]
        if style % 2 == 0 or x is None:
            return [[tgt, 1]]
        return [[tgt, 1], [x, 1], [x, -1]]
    items = [list(i) for i in t['items']]
    if style == 0:
        return list(reversed(items)) if len(items) > 1 else \
            [[tgt, 1]]
    if style == 1:
        # expand the first derived operand into its own definition
        for i, (tn, e) in enumerate(items):
            sub = model.types[tn]
            if not sub['base']:
                return items[:i] + [[n2, e2 * e] for n2, e2 in sub['items']] \
                    + items[i + 1:]
        return [[tgt, 1]]
    if style == 2:
        x = _pick(model.order, r2)
        return items + [[x, 2], [x, -2]]
    if style == 3:
        # ... followed by a derived type and the inverse of its expansion:
        # cancels only when the definition is normalised
        ds = [x for x in model.order if not model.types[x]['base']
              and model.types[x]['dim']]
        d = _pick(ds, r2)
        if d is not None:
            return items + [[d, 1]] + [[b, -e] for b, e in
                                       sorted(model.types[d]['dim'].items())]
    return [[tgt, 1]]


def _term_for(model, tn, r):
    """Units whose product has the dimension of type `tn` (all with factor)."""
    t = model.types[tn]
    style = r[0] % 3
    if t['base']:
        # a term over one unit of the type itself (with numeric elements
        # this is a scaled unit written as a term)
        return [[_pick(t['units'], r[1]), 1]]
    if style in (0, 1):
        # one unit per item of the declared definition
        items = []
        for i, (bn, e) in enumerate(t['items']):
            if not model.has_ref(bn):
                return None
            u = _pick(model.types[bn]['units'], r[1 + i % 3])
            items.append([u, e])
        if style == 1 and len(items) > 1:
            items = list(reversed(items))
        return items
    # two other types A, B with dim(A) +/- dim(B) == dim(tn)
    refs = model.types_with_ref()
    want = dim_key(t['dim'])
    pairs = []
    for a in refs:
        for b in refs:
            if a == tn or b == tn:
                continue
            for s in (1, -1):
                if dim_key(dim_add(model.types[a]['dim'],
                                   model.types[b]['dim'], s)) == want:
                    pairs.append((a, b, s))
    p = _pick(pairs, r[1])
    if p is None:
        return _term_for(model, tn, [0] + list(r[1:]))
    a, b, s = p
    return [[_pick(model.types[a]['units'], r[2]), 1],
            [_pick(model.types[b]['units'], r[3]), s]]


def apply(model: RefDir, act, info=None):
    """Update the model after the library *accepted* `act`."""
    a = act['a']
    info = info or {}
    if a == 'base_type':
        q = Fraction(act['quantum']) if act['quantum'] else None
        model.add_type(act['name'], True, act['ref_sym'], q, None)
        model.types[act['name']]['clsname'] = act.get('clsname')
        model.types[act['name']]['parent'] = act.get('parent')
    elif a == 'derived_type':
        q = Fraction(act['quantum']) if act['quantum'] else None
        ref = act['ref_sym'] if act['ref_sym'] is not None \
            else info.get('ref_sym')
        model.add_type(act['name'], False, ref, q,
                       [tuple(i) for i in act['items']])
        model.types[act['name']]['clsname'] = act.get('clsname')
        model.types[act['name']]['parent'] = act.get('parent')
    elif a == 'scaled_unit':
        p = model.units[act['parent']]
        f = None if p['factor'] is None else \
            p['factor'] * num_value(act['k'])
        model.add_unit(act['sym'], act['type'], f, 'scaled',
                       bvec=dict(p['bvec']),
                       num=p['num'] * num_value(act['k']))
    elif a == 'term_unit':
        k = act['k']
        if act.get('nums'):
            kv = Fraction(1)
            for spec, e in act['nums']:
                kv *= num_value(spec) ** e
            k = {'t': 'frac', 'v': str(kv)}
        bvec, num = model.expand(act['items'], k)
        model.add_unit(act['sym'], act['type'],
                       model.term_factor(act['items'], k), 'term',
                       bvec=bvec, num=num)
        if getattr(model, 'int_terms', None) is not None and \
                act.get('nums') and all(
                    spec['t'] == 'int' and e > 0 for spec, e in act['nums']):
            model.int_terms.append(act['type'])
        if not hasattr(model, 'term_defs'):
            model.term_defs = []
        model.term_defs.append({kk: act.get(kk) for kk in
                                ('type', 'items', 'k', 'nums', 'spell')})
    elif a == 'derive_unit':
        t = model.types[act['type']]
        items = [(u, e) for u, (_, e) in zip(act['units'], t['items'])]
        sym = act['sym'] if act['sym'] is not None else info['sym']
        f = model.term_factor(items) if t['ref'] is not None else None
        bvec, num = model.expand(items)
        model.add_unit(sym, act['type'], f, 'derived',
                       vec=None if f is not None else items,
                       bvec=bvec, num=num)
    elif a == 'plain_unit':
        model.add_unit(act['sym'], act['type'], None, 'plain')
    elif a == 'table_conv':
        t = model.types[act['type']]
        t.setdefault('conv_pairs', [])
        t['n_convs'] = t.get('n_convs', 0) + 1
        for u1, u2, _f, _o in act['table']:
            t['conv_pairs'].append((u1, u2))
    elif a == 'currency_reg':
        if act['code'] not in model.units:
            model.add_unit(act['code'], 'Money', None, 'currency')
    elif a == 'currency_new':
        model.add_unit(act['sym'], 'Money', None, 'currency')


def symbols_mentioned(act):
    out = []
    for k in ('sym', 'ref_sym', 'code', 'names_symbol'):
        if act.get(k):
            out.append(act[k])
    return out


# --------------------------------------------------------------------------
# execution of concrete actions against the real library

class Env:
    """Library objects of one world, by type name / unit symbol."""

    def __init__(self):
        from quantity import Quantity
        from quantity.money import Money
        self.types = {'Money': Money}
        self.units = {}
        self.Quantity = Quantity
        self.shared_ns = {'__doc__': 'declared by the simulator'}
        self.terms = {}

    def bases(self, act):
        """`class Altitude(Length)`: a type may be declared as sub-class
        of a declared type; it is a type of its own all the same."""
        p = act.get('parent')
        return (self.types[p],) if p and p in self.types else \
            (self.Quantity,)

    def namespace(self, name, clsname=None):
        """The class namespace handed to the metaclass: a fresh dict, or -
        as a table-driven generator of types would do - one and the same
        dict object for many classes.  A fresh one looks like what a
        module-level class statement produces."""
        if len(name) % 2:
            return self.shared_ns
        return {'__module__': 'user_declarations',
                '__qualname__': clsname or name}


def lib_quantum(q, salt):
    """A quantum may be given as Fraction, as Decimal (if it has a finite
    decimal form) or as int."""
    from decimalfp import Decimal
    f = Fraction(q)
    if f.denominator == 1 and salt % 3 == 0:
        return int(f)
    d = f.denominator
    while d % 2 == 0:
        d //= 2
    while d % 5 == 0:
        d //= 5
    if d == 1 and salt % 3 != 1:
        return Decimal(f.numerator) / Decimal(f.denominator)
    return f


def lib_num(spec):
    from decimalfp import Decimal
    from quantity import si_prefixes
    t, v = spec['t'], spec['v']
    if t == 'int':
        return int(v)
    if t == 'dec':
        return Decimal(v)
    if t == 'frac':
        return Fraction(v)
    if t == 'float':
        return float(v)
    if t == 'prefix':
        return getattr(si_prefixes, v)
    raise ValueError(spec)


def build_clsdef(env, items, style):
    """Write the definition the way a user would, with operators on the
    classes; style varies the spelling."""
    def factor(tn, e):
        cls = env.types[tn]
        return cls if e == 1 else cls ** e
    if style == 1 and len(items) > 1:
        # a * b / c ** n  (negative exponents via division)
        expr = None
        for tn, e in items:
            cls = env.types[tn]
            if expr is None:
                expr = cls ** e if e != 1 else cls
                if e == 1 and len(items) == 1:
                    expr = cls ** 1
                continue
            if e < 0:
                expr = expr / (cls if e == -1 else cls ** -e)
            else:
                expr = expr * (cls if e == 1 else cls ** e)
        if not hasattr(expr, 'normalized'):
            expr = expr ** 1
        return expr
    if style == 2:
        from quantity.term import Term
        return Term([(env.types[tn], e) for tn, e in items])
    expr = None
    for tn, e in items:
        f = factor(tn, e)
        expr = f if expr is None else expr * f
    if not hasattr(expr, 'normalized'):     # a bare class
        expr = expr ** 1
    return expr


class SymbolText(str):
    """A symbol given as instance of a str sub-class (a member of a
    `class Sym(str, Enum)`, a tagged string): still a str, taken as it is.
    Like such an Enum member it does not print as its value."""
    __slots__ = ()

    def __str__(self):
        return 'Sym.' + str.__str__(self)


def lib_sym(sym):
    """One symbol in five is handed to the library as an instance of a str
    sub-class (selected by a digest of its text, so every world of a run
    does the same)."""
    if sym is None or not sym:
        return sym
    import hashlib
    if hashlib.sha256(sym.encode()).digest()[0] % 5 == 0:
        return SymbolText(sym)
    return sym


def perform(env: Env, act):
    """Execute `act`; returns ('ok', info) or ('exc', class name)."""
    from quantity import QuantityMeta, Quantity
    from quantity.term import Term
    a = act['a']
    try:
        if a == 'base_type':
            kw = {}
            if act['ref_sym'] is not None:
                kw['ref_unit_symbol'] = lib_sym(act['ref_sym'])
                kw['ref_unit_name'] = 'ref ' + act['name']
            if act['quantum'] is not None:
                kw['quantum'] = lib_quantum(act['quantum'], len(act['name']))
            cls = QuantityMeta(act.get('clsname') or act['name'],
                               env.bases(act), env.namespace(
                                   act['name'], act.get('clsname')),
                               **kw)
            env.types[act['name']] = cls
            if cls.ref_unit is not None:
                env.units[cls.ref_unit.symbol] = cls.ref_unit
            return 'ok', {}
        if a == 'derived_type':
            kw = {'define_as': build_clsdef(env, act['items'],
                                            act['style'])}
            if act['ref_sym'] is not None:
                kw['ref_unit_symbol'] = lib_sym(act['ref_sym'])
            elif act.get('auto_ref') and act.get('style') == 1:
                # "no symbol given" spelled as an empty string
                kw['ref_unit_symbol'] = ''
            if act['quantum'] is not None:
                kw['quantum'] = lib_quantum(act['quantum'], len(act['name']))
            cls = QuantityMeta(act.get('clsname') or act['name'],
                               env.bases(act), env.namespace(
                                   act['name'], act.get('clsname')),
                               **kw)
            env.types[act['name']] = cls
            info = {}
            if cls.ref_unit is not None:
                env.units[cls.ref_unit.symbol] = cls.ref_unit
                info['ref_sym'] = cls.ref_unit.symbol
            return 'ok', info
        if a == 'scaled_unit':
            cls = env.types[act['type']]
            parent = env.units[act['parent']]
            k = lib_num(act['k'])
            if act['via'] == 'ctor':
                import decimal
                q = cls(decimal.Decimal(act['k']['v']), parent)
            else:
                q = parent * k if act['via'] == 'mul' else k * parent
            u = cls.new_unit(lib_sym(act['sym']), 'unit ' + act['sym'], q)
            env.units[u.symbol] = u
            return 'ok', {}
        if a == 'term_unit' and act.get('nums'):
            from decimalfp import Decimal
            cls = env.types[act['type']]
            items = [(env.units[s], e) for s, e in act['items']]
            nums = []
            for spec, e in act['nums']:
                k = lib_num(spec)
                if spec['t'] == 'prefix':
                    k = k.factor
                elif spec['t'] == 'float':
                    k = Decimal(k)      # (a float to a power is a float)
                nums.append((k, e))
            spell = act.get('spell', 0)
            sig = repr((act['items'], act['nums'], spell))
            if sig in env.terms:
                # the very Term object of an earlier declaration (possibly
                # a rejected one) is used again
                term = env.terms[sig]
            elif spell == 0:
                term = Term(nums + items)
            elif spell == 1:
                term = Term(items + nums)
            elif spell in (4, 5, 6):
                # written as a power of another term: the inverse term to
                # the power of -1, its reciprocal(), or - if every exponent
                # is even - the "root" term squared
                allx = nums + items
                if spell == 6 and all(e % 2 == 0 for _x, e in allx):
                    term = Term([(x, e // 2) for x, e in allx]) ** 2
                elif spell == 5:
                    term = Term([(x, -e) for x, e in allx]).reciprocal()
                else:
                    term = Term([(x, -e) for x, e in allx]) ** -1
            else:
                # with operators: term * k, term / k, k * term
                term = Term(items)
                for k, e in nums:
                    if e == 1:
                        term = term * k if spell == 2 else k * term
                    elif e == -1:
                        term = term / k
                    else:
                        term = Term([(k, e)]) * term
            env.terms[sig] = term
            u = cls.new_unit(lib_sym(act['sym']), None, term)
            env.units[u.symbol] = u
            return 'ok', {}
        if a == 'term_unit':
            cls = env.types[act['type']]
            items = [(env.units[s], e) for s, e in act['items']]
            if act['k'] is not None:
                k = lib_num(act['k'])
                if act['k']['t'] == 'prefix':
                    k = k.factor
                elif act['k']['t'] == 'float':
                    from decimalfp import Decimal
                    k = Decimal(k)
                elif act['k']['t'] == 'int':
                    from decimalfp import Decimal
                    k = Decimal(k)
                items = [(k, 1)] + items
            u = cls.new_unit(lib_sym(act['sym']), None, Term(items))
            env.units[u.symbol] = u
            return 'ok', {}
        if a == 'derive_unit':
            cls = env.types[act['type']]
            units = [env.units[s] for s in act['units']]
            if act['sym'] is None:
                u = cls.derive_unit_from(*units)
            elif act.get('name'):
                u = cls.derive_unit_from(*units, symbol=lib_sym(act['sym']),
                                         name=act['name'])
            else:
                u = cls.derive_unit_from(*units, symbol=lib_sym(act['sym']))
            env.units[u.symbol] = u
            return 'ok', {'sym': u.symbol}
        if a == 'plain_unit':
            cls = env.types[act['type']]
            u = cls.new_unit(lib_sym(act['sym']))
            env.units[u.symbol] = u
            return 'ok', {}
        if a == 'table_conv':
            from quantity import TableConverter
            cls = env.types[act['type']]
            table = {(env.units[u1], env.units[u2]): (int(f), int(o))
                     for u1, u2, f, o in act['table']}
            cls.register_converter(TableConverter(table))
            return 'ok', {}
        if a == 'currency_reg':
            from quantity.money import Money
            u = Money.register_currency(act['code'])
            prev = env.units.get(act['code'])
            env.units[act['code']] = u
            return 'ok', {'same': prev is None or prev is u}
        if a == 'currency_new':
            from quantity.money import Money
            kw = {}
            if act['minor'] is not None:
                kw['minor_unit'] = act['minor']
            if act['sf'] is not None:
                kw['smallest_fraction'] = act['sf']
            u = Money.new_unit(lib_sym(act['sym']), 'cur ' + act['sym'], **kw)
            env.units[u.symbol] = u
            return 'ok', {}
        if a == 'term_noise':
            u, n_, e_ = env.units[act['unit']], act['n'], act['e']
            for fn in (lambda: hash(Term([(u, 1)]) / n_),
                       lambda: hash(Term([(n_, e_), (u, 2)])),
                       lambda: str(Term([(float(n_), e_), (u, 1)])),
                       lambda: Term([(u, 1)]) * n_ == Term([(n_, 1), (u, 1)]),
                       lambda: Term([(n_, e_), (u, -1)]).normalized(),
                       # terms of two units rendered, hashed and compared
                       # (what a report or a log line would do)
                       lambda: str(Term([(u, 1), (env.units[act['unit2']],
                                                  -1)])),
                       lambda: str(Term([(u, 1), (env.units[act['unit2']],
                                                  1)])),
                       lambda: hash(Term([(env.units[act['unit2']], 2),
                                          (u, -1)]))):
                try:
                    fn()
                except Exception:       # noqa: nothing is declared here
                    pass
            return 'ok', {}
        if a == 'evict':
            # memo eviction reaches private names; if a refactoring renamed
            # them this fault kind is simply unavailable (never an error)
            n = 0
            try:
                import quantity
                quantity._UNIT_OP_CACHE.clear()
                n += 1
            except AttributeError:
                pass
            for u in env.units.values():
                d = getattr(u, '_definition', None)
                if d is not None:
                    for slot in ('_normalized', '_hash'):
                        try:
                            delattr(d, slot)
                            n += 1
                        except (AttributeError, TypeError):
                            pass
            return 'ok', {'evicted': n}
    except Exception as e:     # noqa: a rejected declaration
        return 'exc', type(e).__name__
    raise ValueError(f"unknown action {act}")


def describe_catalogue(_=None):
    """Variant 'predefined': the catalogue as pure data, read through the
    public API of the library (its correctness is C20, not claimed)."""
    import quantity.predefined as P
    from quantity import QuantityMeta, Quantity
    from decimalfp import ONE
    desc = []
    for name, obj in list(vars(P).items()):
        if not (isinstance(obj, QuantityMeta) and obj is not Quantity
                and obj.__module__ == P.__name__):
            continue
        ref = obj.ref_unit
        q = None if obj.quantum is None else \
            Fraction(obj.quantum.numerator, obj.quantum.denominator)
        t = {'name': name, 'base': obj.is_base_cls(),
             'ref': ref.symbol if ref else None,
             'quantum': None if q is None else str(q),
             'items': None if obj.is_base_cls() else
             [[elem.__name__, exp] for elem, exp in obj.definition],
             'units': []}
        for u in obj.units():
            if u is ref:
                continue
            if ref is None:
                f = None
            elif q is not None:
                uq = u.quantum
                f = q / Fraction(uq.numerator, uq.denominator)
            else:
                amt = (ONE * u).convert(ref).amount
                f = Fraction(amt.numerator, amt.denominator)
            bvec, num = {}, Fraction(1)
            for elem, e in u.normalized_definition:
                if hasattr(elem, 'symbol'):
                    bvec[elem.symbol] = bvec.get(elem.symbol, 0) + e
                else:
                    num *= Fraction(elem.numerator, elem.denominator) ** e
            t['units'].append([u.symbol, None if f is None else str(f),
                               sorted(bvec.items()), str(num)])
        desc.append(t)
    return desc


def seed_from(model: RefDir, desc):
    for t in desc:
        q = Fraction(t['quantum']) if t['quantum'] else None
        model.add_type(t['name'], t['base'], t['ref'], q,
                       None if t['base'] else [tuple(i) for i in t['items']],
                       catalogue=True)
        for sym, f, bvec, num in t['units']:
            model.add_unit(sym, t['name'],
                           None if f is None else Fraction(f), 'catalogue',
                           bvec={k: e for k, e in bvec}, num=Fraction(num))


def seed_catalogue(model: RefDir, env: Env):
    """Seed the model from the library of this world and put the catalogue's
    classes and units into `env`."""
    import quantity.predefined as P
    seed_from(model, describe_catalogue())
    for t in model.types.values():
        if t['catalogue']:
            cls = getattr(P, t['name'])
            env.types[t['name']] = cls
            for u in cls.units():
                env.units[u.symbol] = u
