"""Command-line driver shared by all checks.

A check module provides
    PROP               property id
    VARIANTS           world variants ('bare', 'predefined')
    variant_of(seed, run)
    gen(seed, run, tier) -> history (pure JSON data: {'cfg':…, 'ops':[…]})
    judge(history) -> result dict (forks the worlds it needs)
    run_one(seed, run, tier) -> result dict       (gen + judge)
    RULE, ASSUMPTIONS, REAL, STUBS, LEVEL_TEXT     (evidence texts)
    shrink_args(history) -> iterator of smaller histories (optional)
"""
from __future__ import annotations

import argparse
import copy
import json
import os
import sys
import time

from sim import core, world

QUICK_BUDGET_S = 22.0
THOROUGH_BUDGET_S = 600.0


def same_violation(v1, v2) -> bool:
    return v1['oracle'] == v2['oracle'] and \
        v1.get('class') == v2.get('class')


def first_violation(res, like=None):
    for v in res.get('violations', []):
        if like is None or same_violation(v, like):
            return v
    return None


def minimise(check, history, viol, log=print):
    """ddmin over history['ops'], then argument passes; a candidate is kept
    iff it still violates the same oracle (and class) of the property."""
    tests = [0]

    def fails(ops):
        h = dict(history)
        h['ops'] = ops
        tests[0] += 1
        try:
            res = check.judge(h)
        except core.HarnessError:
            return False
        return first_violation(res, viol) is not None

    ops = core.ddmin(history['ops'], fails)
    h = dict(history)
    h['ops'] = ops
    if hasattr(check, 'shrink_args'):
        improved = True
        rounds = 0
        while improved and rounds < 6 and tests[0] < 1500:
            improved = False
            rounds += 1
            for cand in check.shrink_args(h):
                tests[0] += 1
                try:
                    res = check.judge(cand)
                except core.HarnessError:
                    continue
                if first_violation(res, viol) is not None:
                    h = cand
                    improved = True
                    break
    return h, tests[0]


def write_replay(check, history, viol, seed, run, res):
    rdir = os.environ.get('VERIF_REPLAY_DIR') or \
        os.path.join(core.VERIF_DIR, 'replays')
    os.makedirs(rdir, exist_ok=True)
    path = os.path.join(rdir,
                        f"{check.PROP}-{seed}-{run}-{viol['oracle']}.json")
    with open(path, 'w') as f:
        json.dump({'property': check.PROP, 'oracle': viol['oracle'],
                   'class': viol.get('class'), 'seed': seed, 'run': run,
                   'history': history, 'violation': viol,
                   'log_digest': res.get('digest')}, f, indent=1,
                  sort_keys=True)
    return path


def replay(check, path) -> int:
    with open(path) as f:
        rp = json.load(f)
    res = check.judge(rp['history'])
    v = first_violation(res, rp['violation'])
    for fid, n in sorted(res.get('known', {}).items()):
        print(f"KNOWN-FINDING: property={check.PROP} "
              f"{core.KnownFindings().what(fid)}")
    if v is None:
        print(f"replay {path}: violation NOT reproduced "
              f"(violations now: {res.get('violations')})")
        return core.EXIT_OK
    same_digest = res.get('digest') == rp.get('log_digest')
    print(f"replay {path}: reproduced oracle={v['oracle']} "
          f"class={v.get('class')} step={v.get('step')} "
          f"log_digest_identical={same_digest}")
    print(json.dumps(v, indent=1, sort_keys=True))
    print(f"VIOLATION property={check.PROP} replay={path}")
    return core.EXIT_VIOLATION


def main(check, argv=None):
    ap = argparse.ArgumentParser()
    ap.add_argument('--tier', default=os.environ.get('VERIF_TIER', 'quick'),
                    choices=['quick', 'thorough'])
    ap.add_argument('--replay')
    ap.add_argument('--runs', type=int,
                    default=int(os.environ.get('VERIF_RUNS', '0')) or None)
    ap.add_argument('--budget', type=float,
                    default=float(os.environ.get('VERIF_BUDGET_S', '0'))
                    or None)
    ap.add_argument('--digests', help='write run->digest map to this file')
    ap.add_argument('--no-evidence', action='store_true')
    args = ap.parse_args(argv)
    seed = int(os.environ.get('VERIF_SEED', '0'))
    print(f"VERIF_SEED={seed} property={check.PROP} tier={args.tier} "
          f"PYTHONHASHSEED={os.environ.get('PYTHONHASHSEED')}")
    world.load()
    print(f"library under test: {world.REPO_SRC}")
    if args.replay:
        return replay(check, args.replay)
    budget = args.budget or (QUICK_BUDGET_S if args.tier == 'quick'
                             else THOROUGH_BUDGET_S)
    t0 = time.monotonic()
    batch = core.run_batch(check, seed, args.tier, budget,
                           max_runs=args.runs)
    results = batch['results']
    kf = core.KnownFindings()

    # ---- aggregate
    stats = core.Stats()
    reach = {}
    digests = set()
    nontrivial = set()
    samples = []
    known = {}
    viol_runs = []
    for r in results:
        stats.add({'ops': r.get('ops', 0), 'worlds': r.get('worlds', 0),
                   'faults': r.get('faults', {}),
                   'probes': r.get('probes', {}),
                   'sim_days': r.get('sim_days', 0)})
        for cat, keys in r.get('reach', {}).items():
            reach.setdefault(cat, set()).update(keys)
        digests.add(r['hist_digest'])
        if r.get('nontrivial'):
            nontrivial.add(r['hist_digest'])
        if r.get('sample') is not None and len(samples) < 3:
            samples.append(r['sample'])
        for fid, n in r.get('known', {}).items():
            known[fid] = known.get(fid, 0) + n
        if r.get('violations'):
            viol_runs.append(r)
    if args.digests:
        with open(args.digests, 'w') as f:
            json.dump({str(r['run']): r['digest'] for r in results}, f,
                      sort_keys=True)

    # ---- violations: confirm, minimise, write replay, re-run replay
    reported = []
    seen_classes = set()
    for r in viol_runs:
        v = r['violations'][0]
        key = (v['oracle'], v.get('class'))
        if key in seen_classes or len(reported) >= 4:
            continue
        seen_classes.add(key)
        history = check.gen(seed, r['run'], args.tier)
        res2 = check.judge(history)
        v2 = first_violation(res2, v)
        if v2 is None:
            print(f"HARNESS: violation of run {r['run']} did not reproduce "
                  f"in a fresh world: {v}")
            batch['harness_errors'].append({'run': r['run'],
                                            'harness_error': 'flaky'})
            continue
        hmin, tests = minimise(check, history, v2)
        res3 = check.judge(hmin)
        v3 = first_violation(res3, v2)
        path = write_replay(check, hmin, v3, seed, r['run'], res3)
        # replay from the file in fresh worlds
        with open(path) as f:
            rp = json.load(f)
        res4 = check.judge(rp['history'])
        v4 = first_violation(res4, v3)
        ok = v4 is not None and res4.get('digest') == rp['log_digest']
        print(f"violation run={r['run']} oracle={v3['oracle']} "
              f"class={v3.get('class')} minimised {len(history['ops'])}"
              f"->{len(hmin['ops'])} ops in {tests} tests; "
              f"replay reproduces exactly: {ok}")
        print(json.dumps(v3, sort_keys=True)[:1500])
        reported.append(path)

    wall = time.monotonic() - t0
    n_runs = len(results)
    # ---- evidence
    cov = {
        'evaluations': n_runs,
        'distinct_nontrivial': len(nontrivial),
        'distinct_histories': len(digests),
        'rule': check.RULE,
        'samples': samples,
        'runs_per_hour': int(n_runs / max(batch['wall_s'], 1e-9) * 3600),
        'run_indices': [results[0]['run'], results[-1]['run']]
        if results else [],
        'derived_seeds': [core.derive_seed(seed, check.PROP,
                                           results[0]['run']),
                          core.derive_seed(seed, check.PROP,
                                           results[-1]['run'])]
        if results else [],
        'ops_executed': stats.c.get('ops', 0),
        'worlds': stats.c.get('worlds', 0),
        'faults_fired': dict(sorted(stats.c.get('faults', {}).items())),
        'probes': dict(sorted(stats.c.get('probes', {}).items())),
        'reach': {k: len(v) for k, v in sorted(reach.items())},
        'known_findings_hit': known,
        'real_components': check.REAL,
        'stub_components': check.STUBS,
        'hash_seed': os.environ.get('PYTHONHASHSEED'),
        'decimal_implementation': world.DECIMAL_IMPL,
        'library_under_test': world.REPO_SRC,
        'workers': batch['workers'],
        'harness_errors': len(batch['harness_errors']),
        'worlds_rerun_after_wall_limit': sum(
            1 for r in results if r.get('slow_world')),
        'replays': [os.path.relpath(p, core.VERIF_DIR) for p in reported],
    }
    if batch.get('variants_unavailable'):
        cov['variants_unavailable'] = batch['variants_unavailable']
        cov['runs_skipped'] = batch['runs_skipped']
        print("NOTE: world variant(s) unavailable in this tree, their runs "
              "were skipped:", batch['variants_unavailable'])
    if hasattr(check, 'extra_coverage'):
        cov.update(check.extra_coverage(results, reach))
    if stats.c.get('sim_days'):
        cov['simulated_time_days'] = stats.c['sim_days']
    ev = {'property_id': check.PROP, 'tier': args.tier, 'seed': seed,
          'level': 'exploration', 'coverage': cov,
          'assumptions': check.ASSUMPTIONS, 'wall_s': round(wall, 2),
          'violations': len(reported)}
    if not args.no_evidence:
        os.makedirs(os.path.join(core.VERIF_DIR, 'evidence'), exist_ok=True)
        with open(os.path.join(core.VERIF_DIR, 'evidence',
                               f'{check.PROP}.json'), 'w') as f:
            json.dump(ev, f, indent=1, sort_keys=True)
    print(f"runs={n_runs} distinct={len(digests)} "
          f"nontrivial={len(nontrivial)} ops={stats.c.get('ops', 0)} "
          f"worlds={stats.c.get('worlds', 0)} wall={wall:.1f}s "
          f"runs/h={cov['runs_per_hour']}")
    print("faults fired:", json.dumps(cov['faults_fired']))
    print("probes:", json.dumps(cov['probes']))
    print("reach:", json.dumps(cov['reach']))
    for fid, n in sorted(known.items()):
        print(f"KNOWN-FINDING: property={check.PROP} {kf.what(fid)} "
              f"[{fid}, hit {n}x]")
    if batch['harness_errors']:
        for h in batch['harness_errors'][:3]:
            print(f"HARNESS ERROR (run {h.get('run')}):",
                  str(h.get('harness_error'))[-1500:])
        print(f"HARNESS: {len(batch['harness_errors'])} run(s) failed in "
              f"the simulator itself; result not trusted")
        for p in reported:
            print(f"VIOLATION property={check.PROP} replay={p}")
        return core.EXIT_VIOLATION if reported else core.EXIT_HARNESS
    if reported:
        for p in reported:
            print(f"VIOLATION property={check.PROP} replay={p}")
        return core.EXIT_VIOLATION
    if n_runs == 0:
        print("HARNESS: no run completed")
        return core.EXIT_HARNESS
    print(f"property {check.PROP} held on everything explored")
    return core.EXIT_OK
