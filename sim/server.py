"""World server: a fresh interpreter (started with its own PYTHONHASHSEED)
that imports the library once and then runs each request in a forked child,
exactly like the workers do.  Protocol: one JSON object per line.
"""
import importlib
import json
import os
import sys

sys.path.insert(0, os.path.dirname(os.path.dirname(os.path.abspath(__file__))))


def main():
    from sim import core, world
    world.load()
    out = sys.stdout
    for line in sys.stdin:
        req = json.loads(line)
        try:
            if req.get('predefined'):
                # only this request's child sees the catalogue
                fn = _with_predefined
                arg = [req['mod'], req['fn'], req['arg']]
            else:
                fn = getattr(importlib.import_module(req['mod']), req['fn'])
                arg = req['arg']
            res = {'ok': core.run_in_child(fn, arg, req.get('wall_s'))}
        except core.HarnessError as e:
            res = {'err': str(e)}
        out.write(json.dumps(res, separators=(',', ':')) + '\n')
        out.flush()


def _with_predefined(a):
    from sim import world
    world.load_predefined()
    mod, fn, arg = a
    return getattr(importlib.import_module(mod), fn)(arg)


if __name__ == '__main__':
    main()
