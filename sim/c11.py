"""C11 - money converter yields the right rate for every update history and
effective date.

System: 1-3 real MoneyConverter objects over 3-5 currencies, real
ExchangeRate / Money; the clock is the SimClock, reached either through the
`get_dflt_effective_date` callable or through the module-level `date` shim.
Oracle: RefRates (dict keyed by (period, currency) with last-write-wins).
"""
from __future__ import annotations

import datetime as dt

from sim import core

PROP = 'C11'
VARIANTS = ['bare']
MAX_OPS = 40
ALIEN_SYMBOL = 'ozt'


class BusinessDate(dt.date):
    """a date of a calendar of the caller's"""


class YearNumber(int):
    """an int with a name (what an IntEnum member is)"""


CLOCK_ERRORS_BY_NAME = {e.__name__: e for e in (
    KeyError, LookupError, IndexError, ValueError, AttributeError, TypeError,
    RuntimeError, OSError, StopIteration, ArithmeticError)}
CLOCK_ERRORS = sorted(CLOCK_ERRORS_BY_NAME)
ISO = ['EUR', 'USD', 'HKD', 'JPY', 'CHF', 'GBP', 'TND', 'KWD', 'CLF', 'SEK']
PRIMES = None


def variant_of(seed, run):
    return 'bare'


def _primes():
    global PRIMES
    if PRIMES is None:
        n = 100000
        sieve = bytearray([1]) * n
        for i in range(2, 317):
            if sieve[i]:
                sieve[i * i::i] = bytearray(len(sieve[i * i::i]))
        PRIMES = [i for i in range(1009, n) if sieve[i]]
    return PRIMES


# --------------------------------------------------------------------------
# generation

ANCHORS = ['2024-02-29', '1999-12-31', '2000-01-01', '2023-01-31',
           '2024-03-01', '2000-02-28', '2021-06-15', '2024-12-31',
           '0001-01-01', '9999-12-31']


def _neighbours(d: dt.date):
    out = [d]
    for delta in (-1, 1):
        try:
            out.append(d + dt.timedelta(days=delta))
        except OverflowError:
            pass
    for dy, dm in ((0, -1), (0, 1), (-1, 0), (1, 0)):
        y, m = d.year + dy, d.month + dm
        if m < 1:
            y, m = y - 1, 12
        if m > 12:
            y, m = y + 1, 1
        if not 1 <= y <= 9999:
            continue
        day = d.day
        while True:
            try:
                out.append(dt.date(y, m, day))
                break
            except ValueError:
                day -= 1
    return out


def _spell_validity(rng, kind, d: dt.date):
    """One of the documented spellings of the period of `kind` containing d."""
    if kind == 'none':
        return {'t': 'none'}
    if kind == 'year':
        return rng.choice([{'t': 'int', 'v': d.year},
                           {'t': 'str', 'v': f"{d.year:04d}"},
                           {'t': 'int', 'v': d.year},
                           # an int is an int, also as member of an IntEnum
                           {'t': 'int_sub', 'v': d.year}])
    if kind == 'month':
        return rng.choice([
            {'t': 'tuple_int', 'v': [d.year, d.month]},
            {'t': 'tuple_str', 'v': [f"{d.year:04d}", f"{d.month:02d}"]},
            {'t': 'tuple_named', 'v': [d.year, d.month]},
            # each element "convertible to int" on its own
            {'t': 'tuple_mixed', 'v': [d.year, f"{d.month:02d}"]},
            {'t': 'tuple_mixed', 'v': [f"{d.year:04d}", d.month]},
            {'t': 'str', 'v': f"{d.year:04d}-{d.month:02d}"}])
    return rng.choice([{'t': 'date', 'v': d.isoformat()},
                       {'t': 'str', 'v': d.isoformat()},
                       {'t': 'date', 'v': d.isoformat()},
                       # a date is a date, also as instance of a sub-class
                       # (a business calendar's date, a test double)
                       {'t': 'date_sub', 'v': d.isoformat()}])


INVALID_VALIDITIES = [
    {'t': 'str', 'v': '2020-13'}, {'t': 'tuple_int', 'v': [2020, 0]},
    {'t': 'tuple_int', 'v': [2020, 13]}, {'t': 'int', 'v': 0},
    {'t': 'int', 'v': 10000}, {'t': 'str', 'v': '2020-02-30'},
    {'t': 'str', 'v': '2021-02-29'}, {'t': 'float', 'v': 2020.5},
    {'t': 'str', 'v': 'x'}, {'t': 'str', 'v': '2020-01-01-01'},
    {'t': 'list', 'v': [2020, 3]}, {'t': 'str', 'v': '2020-00'},
    {'t': 'tuple_str', 'v': ['2020', '13']}, {'t': 'str', 'v': '10000'},
    {'t': 'str', 'v': ''},
]


def gen(seed, run, tier='quick'):
    rng = core.rng_for(seed, PROP, run)
    primes = _primes()
    deep = tier == 'thorough'
    n_cur = rng.choice([3, 3, 4, 5] + ([6] if deep else []))
    codes = rng.sample(ISO, n_cur)
    curs = []
    for k, c in enumerate(codes):
        if rng.random() < 0.25:
            # a user-declared currency; sometimes its symbol is the
            # lower-case (or padded) twin of an ISO code used in this run
            twin = codes[(k + 1) % n_cur]
            curs.append({'how': 'new',
                         'sym': rng.choice([f"X{k}{c[0]}", f"X{k}{c[0]}",
                                            twin.lower(), twin + ' ',
                                            twin.capitalize()]),
                         'minor': rng.choice([0, 2, 3])})
        else:
            curs.append({'how': 'iso', 'sym': c})
    late = None
    if rng.random() < 0.3:
        # a currency that gets registered only later in the history; until
        # then a rate spec naming its symbol is an invalid rate spec
        free = [c for c in ISO if c not in codes]
        late = {'how': 'iso', 'sym': rng.choice(free)}
    n_conv = rng.choice([1, 1, 2, 3] + ([4] if deep else []))
    anchor = dt.date.fromisoformat(rng.choice(ANCHORS))
    pool = _neighbours(anchor)
    far = dt.date(rng.randrange(1, 10000), rng.randrange(1, 13),
                  rng.randrange(1, 29))
    pool_far = pool + [far]
    convs = []
    for k in range(n_conv):
        convs.append({'base': rng.randrange(n_cur),
                      'clock': rng.choice(['callable', 'default']),
                      'clock0': rng.choice(pool).isoformat(),
                      'kind': rng.choice(['none', 'year', 'month', 'month',
                                          'day', 'day'])})
    n_conv0 = n_conv
    w = {'update': rng.choice([3, 5, 8]), 'get': rng.choice([2, 4]),
         'call': rng.choice([1, 2]), 'implicit': rng.choice([0, 1, 2]),
         'clock': rng.choice([0, 1, 3]),
         'tick': rng.choice([0, 0, 1, 2]),
         'clockfail': rng.choice([0, 0, 1, 1]),
         'snapshot': rng.choice([0, 0, 1]),
         'bulk': rng.choice([0, 0, 0, 0, 1]),
         'clockupdate': rng.choice([0, 0, 1, 1]),
         'bad_validity': rng.choice([0, 1, 2]),
         'datetime_validity': rng.choice([0, 0, 1]),
         'late': rng.choice([1, 2]) if late else rng.choice([0, 1]),
         'mixed_kind': rng.choice([0, 1, 2])}
    sym_cur_p = rng.choice([0, 0.15, 0.4])
    kinds = list(w)
    weights = [w[k] for k in kinds]
    n_ops = rng.randrange(3, (2 * MAX_OPS if deep else MAX_OPS) + 1)
    if rng.random() < 0.02:
        # a long-lived process: a few runs are several times longer than
        # the rest (bounded caches evict, counters grow)
        n_ops = rng.randrange(100, 200)
    ops = []
    used_primes = set()
    last_upd = {}
    big_p = rng.choice([0, 0, 0, 0.05, 0.15])
    small_p = rng.choice([0, 0, 0, 0.05, 0.15])

    def amount(um):
        """run-unique term amount p/10^j (p prime) with the rate
        p/10^j/um in [0.01, 500], so that every cross rate and inverse
        stays far above the 0.000001 limit of ExchangeRate."""
        if rng.random() < big_p:
            # a legal rate above 1 000 000 (a weak currency against gold):
            # its inverse cannot be represented (< 0.000001), every other
            # lookup can
            while True:
                p = rng.randrange(2 * 10 ** 6, 5 * 10 ** 7) * um + \
                    rng.randrange(um)
                if p not in used_primes:
                    used_primes.add(p)
                    return {'t': rng.choice(['dec', 'int', 'str', 'frac']),
                            'v': str(p)}
        while True:
            if rng.random() < 0.5:
                p = rng.choice(primes)
            else:
                # more digits than an exchange rate keeps (6 decimals at
                # its unit multiple): rounding happens once, at storage
                p = rng.randrange(10 ** 5, 10 ** 9)
                if p % 10 == 0:
                    continue
            if p in used_primes:
                continue
            t = rng.choice(['dec', 'dec', 'frac', 'str', 'float', 'int'])
            j = 0 if t == 'int' else rng.choice([0, 1, 2, 2, 3, 4, 5, 6, 7,
                                                 8])
            if rng.random() < 0.06:
                # a float written with a 5 in the 7th decimal and nothing
                # behind: its decimal spelling is a rounding tie at the 6
                # decimals a rate keeps, the binary value it holds is not
                t, j = 'float', 7
                p = p // 10 * 10 + 5
            if 0.01 <= p / 10 ** j / um <= 500:
                used_primes.add(p)
                break
        if j == 0:
            v = str(p)
        else:
            s = str(p).rjust(j + 1, '0')
            v = s[:-j] + '.' + s[-j:]
        if t == 'str' and rng.random() < 0.4:
            # a string "convertible to a number": ratio notation, digits
            # grouped with underscores, blanks around
            v = rng.choice([f"{p}/{10 ** j}", f" {v} ",
                            v if len(v.split('.')[0]) < 4 else
                            v.split('.')[0][:-3] + '_' + v.split('.')[0][-3:]
                            + ('.' + v.split('.')[1] if '.' in v else '')])
        return {'t': t, 'v': v}

    def rate_specs(ci):
        base = convs[ci]['base']
        others = [j for j in range(n_cur) if j != base]
        n = rng.randrange(1, len(others) + 1)
        if rng.random() < 0.06:
            return []       # nothing to store - still an update of a kind
        specs = []
        for j in rng.sample(others, n):
            um = rng.choice([1, 1, 1, 10, 100, 1000])
            # (dec2: an integral Decimal written with decimals, as the
            # amount of a Money is; frac: Fraction(n, 1); str2: '100.0')
            umt = rng.choice(['int', 'int', 'dec', 'str', 'dec2', 'frac',
                              'str2'])
            how = 'sym' if rng.random() < sym_cur_p else 'obj'
            if rng.random() < small_p:
                # a strong currency quoted per million of a weak base
                # currency: small term amount (>= 0.000001 as required),
                # big unit multiple, a rate far below 0.000001 per unit
                um = 10 ** rng.choice([6, 7, 8])
                while True:
                    p = rng.choice(primes)
                    if p not in used_primes:
                        used_primes.add(p)
                        break
                specs.append([[j, how],
                              {'t': rng.choice(['dec', 'str', 'frac']),
                               'v': '0.%05d' % p},
                              {'t': rng.choice(['int', 'dec', 'str']),
                               'v': um}])
                continue
            specs.append([[j, how], amount(um), {'t': umt, 'v': um}])
        # the same currency twice in one update (later entry wins)
        if rng.random() < 0.1 and specs:
            j = specs[0][0][0]
            specs.append([[j, 'obj'], amount(1), {'t': 'int', 'v': 1}])
            if rng.random() < 0.5:
                # ... and a third time, literally as the first time
                # (A, B, A: the most recent entry is A again)
                specs.append([list(specs[0][0]), dict(specs[0][1]),
                              dict(specs[0][2])])
        return specs

    def some_date():
        return rng.choice(pool_far if rng.random() < 0.2 else pool)

    if n_cur >= 3 and rng.random() < 0.05:
        # boundary values: two base rates whose quotient (scaled the way an
        # exchange rate stores it: 6 decimals at its unit multiple) lies
        # within 5e-6 of a rounding tie - any extra intermediate rounding
        # of a triangulated rate shows here and practically nowhere else
        pair = None
        for _ in range(200000):
            a_ = rng.randrange(4 * 10 ** 8, 5 * 10 ** 8)
            b_ = rng.randrange(10000, 12500)
            r_ = (b_ * 10 ** 10) % a_
            d_ = abs(2 * r_ - a_)
            if 0 < d_ < a_ // 100000 and a_ % 10 and b_ % 10:
                pair = (a_, b_)
                break
        if pair:
            base = convs[0]['base']
            xs = [j for j in range(n_cur) if j != base][:2]
            sa, sb = str(pair[0]).rjust(7, '0'), str(pair[1]).rjust(7, '0')
            ops.append(['update', 0,
                        _spell_validity(rng, convs[0]['kind'], some_date()),
                        [[[xs[0], 'obj'],
                          {'t': 'dec', 'v': sa[:-6] + '.' + sa[-6:]},
                          {'t': 'int', 'v': 1}],
                         [[xs[1], 'obj'],
                          {'t': 'dec', 'v': sb[:-6] + '.' + sb[-6:]},
                          {'t': 'int', 'v': 1}]]])
            used_primes.update(pair)
    while len(ops) < n_ops:
        k = rng.choices(kinds, weights)[0]
        ci = rng.randrange(n_conv)
        if k == 'update':
            if ci in last_upd and rng.random() < 0.12:
                # the period of the previous feed once more (spelled anew):
                # some of its entries re-stated word for word, the others
                # with new amounts, in another order
                d_, prev = last_upd[ci]
                specs_ = []
                for sp in prev:
                    if rng.random() < 0.5:
                        specs_.append([list(sp[0]), dict(sp[1]),
                                       dict(sp[2])])
                    else:
                        um_ = int(sp[2]['v']) if str(sp[2]['v']).isdigit() \
                            else 1
                        specs_.append([list(sp[0]), amount(um_)
                                       if um_ <= 1000 else dict(sp[1]),
                                       dict(sp[2])])
                rng.shuffle(specs_)
            else:
                d_, specs_ = some_date(), rate_specs(ci)
            v = _spell_validity(rng, convs[ci]['kind'], d_)
            ops.append(['update', ci, v, specs_])
            last_upd[ci] = (d_, specs_)
            if rng.random() < 0.05:
                # one of the specs names the converter's own base currency
                # (as object or by symbol): the statement does not say
                # whether such a feed is refused or the entry ignored; it is
                # either refused as a whole or taken without that entry
                ops[-1].append({'base_spec': {
                    'at': rng.randrange(4),
                    'how': rng.choice(['obj', 'sym']),
                    'amt': amount(1), 'um': {'t': 'int', 'v': 1}}})
            elif rng.random() < 0.07:
                # a feed of rate specs that, while it is being read, passes
                # a correction for another period to the same converter
                ops[-1].append({'v': _spell_validity(
                                    rng, convs[ci]['kind']
                                    if rng.random() < 0.7 else
                                    rng.choice(['none', 'year', 'month',
                                                'day']), some_date()),
                                'specs': rate_specs(ci),
                                'at': rng.randrange(4)})
        elif k == 'bad_validity':
            ops.append(['update', ci, rng.choice(INVALID_VALIDITIES),
                        rate_specs(ci)])
        elif k == 'late' and rng.random() < 0.3:
            # a rate spec that names, by its symbol, a registered unit
            # that is no currency (an ounce of gold is not money here)
            ops.append(['alien_update', ci,
                        _spell_validity(rng, convs[ci]['kind'], some_date()),
                        amount(1), rate_specs(ci), rng.randrange(4)])
        elif k == 'late':
            if rng.random() < 0.3:
                ops.append(['late_register'])
            else:
                ops.append(['late_update', ci,
                            _spell_validity(rng, convs[ci]['kind'],
                                            some_date()),
                            amount(1)])
        elif k == 'datetime_validity':
            d = some_date()
            ops.append(['update', ci,
                        {'t': 'datetime',
                         'v': f"{d.isoformat()}T{rng.randrange(24):02d}:30"},
                        rate_specs(ci)])
        elif k == 'mixed_kind':
            other = rng.choice([x for x in ('none', 'year', 'month', 'day')
                                if x != convs[ci]['kind']])
            ops.append(['update', ci,
                        _spell_validity(rng, other, some_date()),
                        rate_specs(ci)])
        elif k == 'implicit':
            # the converter used implicitly: registered with Money and
            # called by money.convert / money + money without a date
            a, b = rng.sample(range(n_cur), 2)
            ops.append(['implicit', ci, a, b,
                        '0' if rng.random() < 0.12 else
                        f"{rng.randrange(1, 10 ** 7)}/100",
                        rng.choice(['convert', 'add', 'lt'])])
        elif k in ('get', 'call'):
            a = rng.randrange(n_cur)
            b = rng.randrange(n_cur) if rng.random() < 0.08 else \
                rng.choice([j for j in range(n_cur) if j != a])
            d = None if rng.random() < 0.5 else some_date().isoformat()
            if k == 'get':
                ops.append(['get', ci, a, b, d])
            else:
                ops.append(['call', ci, a, b, d,
                            '0' if rng.random() < 0.12 else
                            f"{rng.randrange(1, 10 ** 7)}/100"])
            if d is not None and rng.random() < 0.15:
                # the effective date given as datetime (a datetime is a
                # date: the day it lies in) - naive, or aware with an
                # offset under which that day has just begun or nearly ended
                ops[-1].append(rng.choice(['dt', 'dt+14', 'dt-12']))
        elif k == 'clock':
            ops.append(['clock', some_date().isoformat(),
                        rng.randrange(8)])
        elif k == 'tick':
            # the clock moves while the next default-date lookup runs
            a, b = rng.sample(range(n_cur), 2)
            ops.append(['tick', rng.choice([1, 1, 2, 3]),
                        some_date().isoformat(), ci])
            ops.append(['get', ci, a, b, None])
        elif k == 'bulk':
            # a feed that runs for a long time: hundreds of consecutive
            # periods, all currencies each time
            if convs[ci]['kind'] != 'none' and rng.random() < 0.4:
                bulk = ['bulk', ci, rng.choice([60, 400, 900]),
                        rng.randrange(1000)]
                # (at most three per history: each costs seconds in the
                # sweeps that follow)
                if sum(1 for o_ in ops if o_[0] == 'bulk') < 3:
                    ops.append(bulk)
        elif k == 'snapshot':
            # copy.deepcopy(converter): from now on two independent
            # converters with the same past
            if n_conv < 5:
                ops.append(['snapshot', ci])
                convs.append(dict(convs[ci]))
                n_conv += 1
        elif k == 'clockupdate':
            # the configured callable loads rates into the converter before
            # it answers (a service that fetches the day's rates when first
            # asked for the date): an update made while a lookup runs
            a, b = rng.sample(range(n_cur), 2)
            ops.append(['clockupdate', ci,
                        _spell_validity(rng, convs[ci]['kind'], some_date()),
                        rate_specs(ci)])
            if rng.random() < 0.6:
                ops.append(['get', ci, a, b, None])
            else:
                ops.append(['call', ci, a, b, None,
                            f"{rng.randrange(1, 10 ** 5)}/100"])
        elif k == 'clockfail':
            # the configured callable fails during the next default-date
            # lookup
            a, b = rng.sample(range(n_cur), 2)
            ops.append(['clockfail', rng.choice(CLOCK_ERRORS), ci])
            if rng.random() < 0.6:
                ops.append(['get', ci, a, b, None])
            else:
                ops.append(['call', ci, a, b, None,
                            f"{rng.randrange(1, 10 ** 5)}/100"])
    probe_dates = sorted({d.isoformat()
                          for d in rng.sample(pool, min(5, len(pool)))}
                         | {far.isoformat()})
    cfg = {'curs': curs, 'convs': convs[:n_conv0], 'late': late,
           'clock0': rng.choice(pool).isoformat(),
           'tz': rng.choice([0, 1, 2]),
           'probe_dates': probe_dates}
    return {'cfg': cfg, 'ops': ops}


def shrink_args(h):
    import copy
    for i, op in enumerate(h['ops']):
        if op[0] == 'update' and len(op[3]) > 1:
            for j in range(len(op[3])):
                c = copy.deepcopy(h)
                del c['ops'][i][3][j]
                yield c
    if len(h['cfg']['probe_dates']) > 1:
        for j in range(len(h['cfg']['probe_dates'])):
            c = copy.deepcopy(h)
            del c['cfg']['probe_dates'][j]
            yield c
    used = {op[1] for op in h['ops'] if op[0] in ('update', 'get', 'call')}
    if len(h['cfg']['convs']) > 1 and \
            max(used, default=0) < len(h['cfg']['convs']) - 1:
        c = copy.deepcopy(h)
        c['cfg']['convs'].pop()
        yield c


# --------------------------------------------------------------------------
# reference model (no import of quantity)

class RefRates:
    """dict[(period, currency index)] -> spec, last write wins; the kind of
    period is fixed by the first accepted update."""

    def __init__(self):
        self.kind = None
        self.table = {}

    @staticmethod
    def parse_validity(v):
        """-> (kind, period) or None if not a valid documented spelling."""
        t, x = v['t'], v.get('v')
        try:
            if t == 'none':
                return 'none', ()
            if t in ('int', 'int_sub'):
                if 1 <= x <= 9999:
                    return 'year', (x,)
                return None
            if t in ('tuple_int', 'tuple_str', 'tuple_named',
                     'tuple_mixed'):
                y, m = int(x[0]), int(x[1])
                if 1 <= y <= 9999 and 1 <= m <= 12:
                    return 'month', (y, m)
                return None
            if t in ('date', 'date_sub'):
                d = dt.date.fromisoformat(x)
                return 'day', (d.year, d.month, d.day)
            if t == 'str':
                parts = x.split('-')
                if len(parts) == 1 and len(x) == 4 and x.isdigit():
                    y = int(x)
                    return ('year', (y,)) if 1 <= y <= 9999 else None
                if len(parts) == 2 and len(parts[0]) == 4 and \
                        len(parts[1]) == 2 and x.replace('-', '').isdigit():
                    y, m = int(parts[0]), int(parts[1])
                    if 1 <= y <= 9999 and 1 <= m <= 12:
                        return 'month', (y, m)
                    return None
                if len(parts) == 3 and [len(p) for p in parts] == [4, 2, 2] \
                        and x.replace('-', '').isdigit():
                    d = dt.date(int(parts[0]), int(parts[1]), int(parts[2]))
                    return 'day', (d.year, d.month, d.day)
                return None
        except (ValueError, TypeError):
            return None
        return None

    def period_of(self, d: dt.date):
        if self.kind == 'none':
            return ()
        if self.kind == 'year':
            return (d.year,)
        if self.kind == 'month':
            return (d.year, d.month)
        if self.kind == 'day':
            return (d.year, d.month, d.day)
        return None

    def update(self, v, specs):
        """-> True if the update must be accepted, False if rejected."""
        pv = self.parse_validity(v)
        if pv is None:
            return False
        kind, period = pv
        if self.kind is not None and kind != self.kind:
            return False
        self.kind = kind
        for (cur, _how), amt, um in specs:
            self.table[(period, cur)] = (amt, um)
        return True

    def lookup(self, cur, d):
        if self.kind is None:
            return None
        return self.table.get((self.period_of(d), cur))


# --------------------------------------------------------------------------
# execution

def _num(x):
    return None if x is None else f"{x.numerator}/{x.denominator}"


def execute(h):
    from fractions import Fraction
    from sim import world
    from sim.core import KnownFindings
    from quantity import UnitConversionError
    from quantity.money import Money, MoneyConverter, ExchangeRate
    from decimalfp import Decimal

    kf = KnownFindings()
    cfg, ops = h['cfg'], h['ops']
    # every clock is a SimClock: the system date (date.today, through the
    # shim) and one private clock per converter that is configured with a
    # callable; they show different dates, so a lookup that asks the wrong
    # clock is visible
    sysclock = world.SimClock(dt.date.fromisoformat(cfg['clock0']))
    world.install_date_shim(sysclock)
    clocks = [sysclock]
    cclk = []

    # the process knows other units than currencies, too
    from quantity import Quantity, QuantityMeta
    QuantityMeta('Bullion', (Quantity,), {}, ref_unit_symbol=ALIEN_SYMBOL)
    curs = []
    for c in cfg['curs']:
        if c['how'] == 'iso':
            curs.append(Money.register_currency(c['sym']))
        else:
            curs.append(Money.new_unit(c['sym'], c['sym'], c['minor']))
    n_cur = len(curs)
    convs, models = [], []
    real_clock = set()
    # does the default clock of a converter really read the simulated system
    # date?  (the seam is the name `date` in quantity.money; if a
    # refactoring moved it, converters without callable would read the real
    # clock - then every converter gets a callable and the fault kind
    # "system date" is reported as unavailable)
    shim_ok = False
    try:
        saved = sysclock.today
        sysclock.set(dt.date(1234, 5, 6))
        pc = MoneyConverter(curs[0])
        pc.update(dt.date(1234, 5, 6), [(curs[1], 2, 1)])
        shim_ok = pc.get_rate(curs[0], curs[1]) is not None
        sysclock.set(saved)
        sysclock.reads = 0
        sysclock.trace = []
    except Exception:       # noqa
        shim_ok = False
    # where on earth the process runs (a knob per run): the local date is
    # what date.today() shows; the UTC date is the day before or after
    tz = cfg.get('tz', 0)
    if tz:
        sysclock.hour, sysclock.utc_offset = \
            [(1, dt.timedelta(hours=14)), (23, dt.timedelta(hours=-12))][
                tz - 1]
    for c in cfg['convs']:
        base = curs[c['base'] % n_cur]
        if c['clock'] == 'default' and not shim_ok and len(convs) % 2:
            # the default clock does not read the simulated system date
            # (the seam moved): such a converter reads the real clock, its
            # default-date lookups cannot be judged by value - but they
            # must still answer (a rate, None, cannot-convert), not crash
            real_clock.add(len(convs))
            cclk.append(world.SimClock(dt.date(2000, 1, 1)))
            convs.append([lambda: MoneyConverter(base),
                          lambda: MoneyConverter(base, None),
                          lambda: MoneyConverter(
                              base, get_dflt_effective_date=None)][
                                  len(convs) % 3]())
        elif c['clock'] == 'callable' or not shim_ok:
            own = (world.EmptyLookingClock if len(convs) % 3 == 1
                   else world.SimClock)(dt.date.fromisoformat(
                       c.get('clock0', cfg['clock0'])))
            clocks.append(own)
            cclk.append(own)
            if (len(convs) + len(cfg['clock0'])
                    + sum(map(ord, cfg['clock0']))) % 3 == 0:
                # a callable like datetime.now
                own.as_datetime = True
                own.hour = [0, 23, 12][len(convs) % 3]
            if len(convs) % 4 == 2:
                # the callable is a bound method of an object that only
                # the converter refers to from now on
                class Calendar:
                    def __init__(self, clk):
                        self.clk = clk

                    def booking_date(self):
                        return self.clk()
                convs.append(MoneyConverter(
                    base,
                    get_dflt_effective_date=Calendar(own).booking_date))
                import gc
                gc.collect()
            else:
                convs.append(MoneyConverter(base,
                                            get_dflt_effective_date=own))
        else:
            cclk.append(sysclock)
            # "no callable" is spelled by leaving the argument out, or as
            # the documented default None
            convs.append([lambda: MoneyConverter(base),
                          lambda: MoneyConverter(base, None),
                          lambda: MoneyConverter(
                              base, get_dflt_effective_date=None)][
                                  len(convs) % 3]())
        models.append(RefRates())
    probe_dates = [dt.date.fromisoformat(s) for s in cfg['probe_dates']]

    faults, probes, known = {}, {}, {}
    violations, log = [], []
    sim_days = [0]
    states = []

    def bump(d, k, n=1):
        d[k] = d.get(k, 0) + n

    class Stop(Exception):
        pass

    def violate(oracle, cls, step, **facts):
        fid = kf.match(PROP, oracle, dict(facts, **{'class': cls}))
        if fid:
            bump(known, fid)
            return
        violations.append(dict(facts, oracle=oracle, step=step,
                               **{'class': cls}))
        raise Stop()

    def mk_amount(a):
        t, v = a['t'], a['v']
        if t == 'dec':
            return Decimal(v)
        if t == 'frac':
            return Fraction(v)
        if t == 'int':
            return int(v)
        if t == 'float':
            return float(v)
        return v

    def mk_um(u):
        t, v = u['t'], u['v']
        return {'int': lambda: int(v), 'dec': lambda: Decimal(v),
                'str': lambda: str(v),
                'dec2': lambda: Decimal(f'{v}.00'),
                'frac': lambda: Fraction(int(v), 1),
                'str2': lambda: f'{v}.0'}[t]()

    def mk_validity(v):
        t, x = v['t'], v.get('v')
        if t == 'none':
            return None
        if t in ('int', 'str', 'float'):
            return x
        if t in ('tuple_int', 'tuple_str', 'tuple_mixed'):
            return tuple(x)
        if t == 'tuple_named':
            # a tuple is a tuple: (year, month) as named tuple
            import collections
            return collections.namedtuple('YearMonth', 'year month')(*x)
        if t == 'list':
            return list(x)
        if t == 'date':
            return dt.date.fromisoformat(x)
        if t == 'date_sub':
            return BusinessDate.fromisoformat(x)
        if t == 'int_sub':
            return YearNumber(x)
        if t == 'datetime':
            return dt.datetime.fromisoformat(x)
        raise core.HarnessError(f"validity {v}")

    _rate_memo = {}

    def base_rate(ci, cur, d):
        """ExchangeRate base->cur the model selects, built by the library's
        own constructor from the selected spec."""
        spec = models[ci].lookup(cur, d)
        if spec is None:
            return None
        amt, um = spec
        # (ExchangeRates are immutable values: the model builds each one
        # once per world)
        key = (cfg['convs'][ci]['base'] % n_cur, cur, repr(amt), repr(um))
        r = _rate_memo.get(key)
        if r is None:
            r = _rate_memo[key] = ExchangeRate(
                convs[ci].base_currency, mk_um(um), curs[cur],
                mk_amount(amt))
        return r

    def expected_rate(ci, a, b, d, count=True):
        try:
            return _expected_rate(ci, a, b, d, count)
        except Stop:
            raise
        except Exception as e:      # noqa
            # the library's own rate arithmetic (trusted, C09) failed: this
            # lookup cannot be judged
            probes['expected_value_unavailable'] = probes.get(
                'expected_value_unavailable', 0) + 1
            return ('unjudged', type(e).__name__)

    def _expected_rate(ci, a, b, d, count=True):
        """-> ('rate', unit idx, term idx, 'n/d') | ('none',) | ('one', a)"""
        def bump(dct, k):       # noqa: shadow: probes count lookups only
            if count:
                dct[k] = dct.get(k, 0) + 1
        base = cfg['convs'][ci]['base'] % n_cur
        if a == b:
            return ('one', a)
        if a == base:
            r = base_rate(ci, b, d)
            if r is None:
                return ('none',)
            if models[ci].kind is not None:
                bump(probes, 'direct_lookup_hit')
        elif b == base:
            r = base_rate(ci, a, d)
            if r is None:
                return ('none',)
            r = r.inverted()
            bump(probes, 'inverse_lookup_hit')
        else:
            ra, rb = base_rate(ci, a, d), base_rate(ci, b, d)
            if ra is None or rb is None:
                if (ra is None) != (rb is None):
                    bump(probes, 'triangulation_one_leg_missing')
                return ('none',)
            r = ExchangeRate(curs[a], 1, curs[b], rb.rate / ra.rate)
            bump(probes, 'triangulated_lookup_hit')
        return ('rate', a, b, _num(r.rate))

    def canon_rate(r):
        if r is None:
            return ('none',)
        if not isinstance(r, ExchangeRate):
            return ('other', type(r).__name__)
        u, t, q = r.quotation
        ui = next((i for i, c in enumerate(curs) if c is u), -1)
        ti = next((i for i, c in enumerate(curs) if c is t), -1)
        if ui == ti:
            return ('one', ui) if q == 1 else ('rate', ui, ti, _num(q))
        return ('rate', ui, ti, _num(q))

    def observe(fn, any_exc=False):
        try:
            return fn()
        except Exception as e:   # noqa
            # calling a converter that has no rate: the statement names no
            # exception type
            return ('exc', 'UnitConversionError' if any_exc
                    else type(e).__name__)

    def sweep(step):
        vec = []
        for ci, conv in enumerate(convs):
            if conv.base_currency is not curs[
                    cfg['convs'][ci]['base'] % n_cur]:
                violate('sweep', 'base_currency_changed', step, conv=ci)
            for d in probe_dates:
                for a in range(len(curs)):
                    for b in range(len(curs)):
                        if a == b:
                            continue
                        o = observe(lambda: canon_rate(
                            conv.get_rate(curs[a], curs[b], d)))
                        e = expected_rate(ci, a, b, d, count=False)
                        vec.append(o)
                        if e[0] == 'unjudged':
                            continue
                        if o != e:
                            violate('sweep', 'rate', step, conv=ci,
                                    pair=[a, b], date=d.isoformat(),
                                    expected=list(e), observed=list(o),
                                    kind=models[ci].kind)
        return core.digest(vec)

    hooked = {}

    def do_lookup(i, op):
        ci = op[1] % len(convs)
        a, b = op[2] % n_cur, op[3] % n_cur
        d = None if op[4] is None else dt.date.fromisoformat(op[4])
        d_lib = d
        if d is not None and op[-1] in ('dt+14', 'dt-12'):
            d_lib = dt.datetime.combine(
                d, dt.time(0, 30) if op[-1] == 'dt+14' else dt.time(23, 30),
                tzinfo=dt.timezone(dt.timedelta(
                    hours=14 if op[-1] == 'dt+14' else -12)))
            bump(probes, 'effective_date_given_as_aware_datetime')
        elif d is not None and op[-1] == 'dt':
            d_lib = dt.datetime.combine(d, dt.time(13, 30))
            bump(probes, 'effective_date_given_as_datetime')
        conv = convs[ci]
        clock = cclk[ci]
        clock.reset_trace()
        today0 = clock.today
        pre = None
        if clock.hook is not None and d is None:
            # an update will be made from inside the lookup: the answer may
            # reflect the state before it or the state after it
            pre = expected_rate(ci, a, b, today0, count=False)
        if ci in real_clock and d is None:
            try:
                if op[0] == 'get':
                    conv.get_rate(curs[a], curs[b])
                else:
                    conv(Money(Fraction(op[5]), curs[a]), curs[b])
                return 'answered'
            except (ValueError, UnitConversionError):
                return 'declined'
            except Exception as e:      # noqa
                violate('lookup', 'default_date_lookup_crashed', i,
                        op=op[0], conv=ci, observed=type(e).__name__)
        if op[0] == 'get':
            o = observe(lambda: canon_rate(
                conv.get_rate(curs[a], curs[b], d_lib)))
        else:
            money = Money(Fraction(op[5]), curs[a])
            o = observe(lambda: ('amount', _num(
                conv(money, curs[b], d_lib))), any_exc=a != b)
        if clock.armed:
            bump(faults, 'clock_tick_during_lookup' if not clock.script
                 else 'clock_tick_armed_but_not_reached')
        clock.disarm()
        clock.hook = None
        if ci not in hooked:
            pre = None
        for cj in list(hooked):
            bump(faults, 'update_made_by_the_date_callable_during_lookup')
            validity, specs, out = hooked.pop(cj)
            must = models[cj].update(validity, specs)
            if (out[0] == 'ok') != must:
                violate('update', 'accepted_invalid' if out[0] == 'ok'
                        else 'rejected_valid', i, validity=validity,
                        observed=list(out), via='date callable')
        failed, clock.raised, clock.fail_next = clock.raised, None, None
        if failed is not None:
            # the callable gave no date: whatever is answered was not
            # derived from the configured callable
            bump(faults, 'clock_callable_raised_during_lookup')
            if a != b and o[0] != 'exc':
                violate('lookup', 'clock_failure_masked', i, op=op[0],
                        conv=ci, pair=[a, b], raised=type(failed).__name__,
                        observed=list(o))
            return o
        if d is None:
            dates = list(dict.fromkeys(clock.trace)) or [today0]
            bump(probes, 'default_date_lookup')
            if len(dates) > 1:
                bump(probes, 'lookup_saw_two_dates')
        else:
            dates = [d]
        exps = []
        for dd in dates:
            e = expected_rate(ci, a, b, dd)
            if e[0] == 'unjudged':
                return o
            if op[0] == 'call':
                if e[0] == 'one':
                    e = ('amount', _num(money.amount))
                elif e[0] == 'none':
                    e = ('exc', 'UnitConversionError')
                else:
                    e = ('amount', _num(Fraction(e[3]) * money.amount))
            exps.append(e)
        if pre is not None and pre[0] != 'unjudged':
            e = pre
            if op[0] == 'call':
                if e[0] == 'one':
                    e = ('amount', _num(money.amount))
                elif e[0] == 'none':
                    e = ('exc', 'UnitConversionError')
                else:
                    e = ('amount', _num(Fraction(e[3]) * money.amount))
            exps.append(e)
        if o not in exps:
            if a == b:
                violate('lookup', 'same_currency', i, op=op[0],
                        observed=list(o))
            elif len(dates) > 1:
                violate('lookup', 'torn_default_date', i, op=op[0],
                        dates=[x.isoformat() for x in dates],
                        expected_any_of=[list(e) for e in exps],
                        observed=list(o))
            else:
                violate('lookup', 'rate' if op[0] == 'get' else 'amount', i,
                        op=op[0], conv=ci, pair=[a, b],
                        date=dates[0].isoformat(), default_date=d is None,
                        clock=cfg['convs'][ci]['clock'],
                        expected=list(exps[0]), observed=list(o),
                        kind=models[ci].kind)
        return o

    def do_implicit(i, op):
        """money.convert(cur), money + money, money < money with the
        converter registered: the converter is called without a date, so
        its own default effective date decides."""
        ci = op[1] % len(convs)
        a, b = op[2] % n_cur, op[3] % n_cur
        if a == b or ci in real_clock:
            return 'skipped'
        conv, clock = convs[ci], cclk[ci]
        ma = Money(Fraction(op[4]), curs[a])
        mb = Money(Fraction(op[4]) / 3, curs[b])
        how = op[5]
        clock.reset_trace()
        today0 = clock.today
        with conv:
            if how == 'convert':
                o = observe(lambda: ('amount', _num(
                    ma.convert(curs[b]).amount)), any_exc=True)
            elif how == 'add':
                o = observe(lambda: ('amount', _num((mb + ma).amount)),
                            any_exc=True)
            else:
                o = observe(lambda: ('bool', mb < ma), any_exc=True)
        if clock.armed:
            bump(faults, 'clock_tick_during_lookup' if not clock.script
                 else 'clock_tick_armed_but_not_reached')
        clock.disarm()
        bump(probes, 'implicit_conversion_through_registered_converter')
        dates = list(dict.fromkeys(clock.trace)) or [today0]
        exps = []
        for dd in dates:
            e = expected_rate(ci, a, b, dd)
            if e[0] == 'unjudged':
                return o
            if e[0] == 'none':
                exps.append(('exc', 'UnitConversionError'))
                continue
            raw = Fraction(e[3]) * ma.amount      # a -> b, not rounded
            if how == 'convert':
                exps.append(('amount', _num(Money(raw, curs[b]).amount)))
            elif how == 'add':
                exps.append(('amount', _num(Money(mb.amount + raw,
                                                  curs[b]).amount)))
            else:
                exps.append(('bool', mb.amount < raw))
        if o not in exps:
            violate('implicit', 'torn_default_date' if len(dates) > 1
                    else 'value', i, how=how, conv=ci, pair=[a, b],
                    dates=[x.isoformat() for x in dates],
                    expected=[list(e) for e in exps], observed=list(o),
                    kind=models[ci].kind)
        return o

    try:
        log.append([-1, sweep(-1)])
        for i, op in enumerate(ops):
            kind = op[0]
            if kind not in ('get', 'call'):
                # a loading callable serves the lookup that follows at once
                for c_ in cclk:
                    c_.hook = None
            if kind == 'update':
                ci = op[1] % len(convs)
                model = models[ci]
                before_kind = model.kind
                pv = RefRates.parse_validity(op[2])
                specs = [[[s[0][0] % n_cur, s[0][1]], s[1], s[2]]
                         for s in op[3]
                         if s[0][0] % n_cur !=
                         cfg['convs'][ci]['base'] % n_cur]
                if not specs and op[3]:
                    log.append([i, 'skipped'])
                    continue
                if not specs:
                    bump(probes, 'update_without_rate_specs')
                if op[2]['t'] == 'datetime':
                    # A datetime is a date, but not a documented spelling of
                    # a day.  Before the kind is fixed the statement says
                    # nothing about it (skipped).  Afterwards there are two
                    # sound answers: reject it (it is not of the converter's
                    # kind), or - on a converter with daily rates - take it
                    # as that day.  Anything else is mixing kinds.
                    if model.kind is None:
                        log.append([i, 'skipped'])
                        continue
                    bump(faults, 'datetime_as_validity')
                    dv = dt.datetime.fromisoformat(op[2]['v'])
                    lib = [(curs[c] if how == 'obj' else curs[c].symbol,
                            mk_amount(amt), mk_um(um))
                           for (c, how), amt, um in specs]
                    o = observe(lambda: ('ok', convs[ci].update(dv, lib)))
                    if o[0] == 'ok':
                        if model.kind != 'day':
                            violate('update', 'accepted_invalid', i,
                                    validity=op[2], kind_before=model.kind,
                                    observed=list(o))
                        model.update({'t': 'date',
                                      'v': dv.date().isoformat()}, specs)
                    log.append([i, op[0], o[0] if o[0] == 'ok' else o[1],
                                sweep(i)])
                    continue
                lib_specs = []
                for (cur, how), amt, um in specs:
                    cobj = curs[cur] if how == 'obj' else curs[cur].symbol
                    if how == 'sym':
                        bump(probes, 'currency_given_by_symbol')
                    one = (cobj, mk_amount(amt), mk_um(um))
                    # a rate spec is any 3-element iterable
                    lib_specs.append(list(one) if (cur + i) % 3 == 0
                                     else one)
                feed_error = int(core.digest([op[2], op[3]])[:8], 16) % 17 \
                    == 0 and pv is not None
                nested = op[4] if len(op) > 4 and not feed_error and \
                    pv is not None and 'specs' in op[4] else None
                base_spec = op[4]['base_spec'] if len(op) > 4 and \
                    not feed_error and pv is not None and \
                    'base_spec' in op[4] else None
                if base_spec:
                    bcur = curs[cfg['convs'][ci]['base'] % n_cur]
                    lib_specs.insert(
                        base_spec['at'] % (len(lib_specs) + 1),
                        (bcur if base_spec['how'] == 'obj' else bcur.symbol,
                         mk_amount(base_spec['amt']),
                         mk_um(base_spec['um'])))
                    bump(faults, 'rate_spec_names_the_base_currency')
                if nested:
                    pv2 = RefRates.parse_validity(nested['v'])
                    mine = {s[0][0] for s in specs}
                    specs2 = [[[s[0][0] % n_cur, s[0][1]], s[1], s[2]]
                              for s in nested['specs']
                              if s[0][0] % n_cur !=
                              cfg['convs'][ci]['base'] % n_cur and
                              (pv2 != pv or s[0][0] % n_cur not in mine)]
                    if pv2 is None or not specs2 or not specs:
                        nested = None
                if feed_error:
                    # the iterable of rate specs fails while it is read (a
                    # feed that breaks off): the update raises, and like
                    # any rejected update it changes nothing - not even the
                    # kind of validity
                    must_accept = False
                    bump(faults, 'rate_spec_iterable_raises')
                elif not nested and not base_spec:
                    must_accept = model.update(op[2], specs)
                # rate_specs is documented as an Iterable: hand it over as
                # list, tuple, iterator or generator
                form = (len(op[3]) + len(str(op[2])) + i) % 4
                container = [lib_specs, tuple(lib_specs), iter(lib_specs),
                             (s for s in lib_specs)][form]
                if feed_error:
                    def feed(specs=lib_specs, k=i % (len(lib_specs) + 1)):
                        for j, sp in enumerate(specs):
                            if j == k:
                                raise LookupError('feed broke off')
                            yield sp
                        raise LookupError('feed broke off')
                    container = feed()
                nested_out = []
                if nested:
                    lib2 = [(curs[c] if how == 'obj' else curs[c].symbol,
                             mk_amount(amt), mk_um(um))
                            for (c, how), amt, um in specs2]

                    def feed2(mine=list(lib_specs),
                              k=nested['at'] % len(lib_specs)):
                        for j, sp in enumerate(mine):
                            if j == k:
                                nested_out.append(observe(lambda: (
                                    'ok', convs[ci].update(
                                        mk_validity(nested['v']), lib2))))
                            yield sp
                    container = feed2()
                if form >= 2:
                    bump(probes, 'rate_specs_as_one_shot_iterable')
                o = observe(lambda: ('ok', convs[ci].update(
                    mk_validity(op[2]), container)))
                accepted = o[0] == 'ok'
                if base_spec:
                    must_accept = model.update(op[2], specs) if accepted \
                        else False
                if nested:
                    # two updates of disjoint entries: whichever the
                    # converter takes for the more recent one, both count
                    if nested_out:
                        bump(faults, 'update_made_while_another_reads_its_'
                                     'feed')
                        must2 = model.update(nested['v'], specs2)
                        if (nested_out[0][0] == 'ok') != must2:
                            violate('update', 'nested_update_outcome', i,
                                    validity=nested['v'],
                                    observed=list(nested_out[0]))
                    must_accept = model.update(op[2], specs)
                # the caller goes on using (and changing) what it handed
                # over: the converter must have taken its own copy
                for sp in lib_specs:
                    if isinstance(sp, list):
                        sp[1] = 'garbage'
                        sp[2] = 0
                del lib_specs[:]
                if pv is None:
                    bump(faults, 'invalid_validity')
                elif not must_accept:
                    bump(faults, 'mixed_kind_rejected')
                if accepted != must_accept:
                    violate('update', 'accepted_invalid' if accepted
                            else 'rejected_valid', i, validity=op[2],
                            kind_before=before_kind,
                            observed=list(o))
                if must_accept:
                    states.append(core.digest(
                        [ci, model.kind, sorted(
                            (list(k[0]), k[1], v[0]['v'])
                            for k, v in model.table.items())]))
                out = o[0] if accepted else o[1]
            elif kind == 'late_register':
                if cfg.get('late') and len(curs) == n_cur:
                    curs.append(Money.register_currency(cfg['late']['sym']))
                    bump(probes, 'currency_registered_mid_history')
                out = 'registered'
            elif kind == 'alien_update':
                ci = op[1] % len(convs)
                base = cfg['convs'][ci]['base'] % n_cur
                good = [[[s[0][0] % n_cur, s[0][1]], s[1], s[2]]
                        for s in op[4] if s[0][0] % n_cur != base]
                lib = [(curs[c] if how == 'obj' else curs[c].symbol,
                        mk_amount(amt), mk_um(um))
                       for (c, how), amt, um in good]
                lib.insert(op[5] % (len(lib) + 1),
                           (ALIEN_SYMBOL, mk_amount(op[3]), 1))
                o = observe(lambda: ('ok', convs[ci].update(
                    mk_validity(op[2]), lib)))
                bump(faults, 'rate_spec_names_a_unit_that_is_no_currency')
                if o[0] == 'ok':
                    violate('update', 'accepted_invalid', i, validity=op[2],
                            observed=list(o), names=ALIEN_SYMBOL)
                out = o[1] if o[0] != 'ok' else 'ok'
            elif kind == 'late_update':
                if not cfg.get('late'):
                    log.append([i, 'skipped'])
                    continue
                ci = op[1] % len(convs)
                model = models[ci]
                known_cur = len(curs) > n_cur
                spec = [[n_cur, 'sym'], op[3], {'t': 'int', 'v': 1}]
                o = observe(lambda: ('ok', convs[ci].update(
                    mk_validity(op[2]),
                    [(cfg['late']['sym'], mk_amount(op[3]), 1)])))
                accepted = o[0] == 'ok'
                if known_cur:
                    must = model.update(op[2], [spec])
                else:
                    must = False
                    bump(faults, 'rate_spec_names_unregistered_currency')
                if accepted != must:
                    violate('update', 'accepted_invalid' if accepted
                            else 'rejected_valid', i, validity=op[2],
                            late_currency_registered=known_cur,
                            observed=list(o))
                out = o[0] if accepted else o[1]
            elif kind == 'implicit':
                out = do_implicit(i, op)
            elif kind in ('get', 'call'):
                out = do_lookup(i, op)
            elif kind == 'clock':
                clock = clocks[(op[2] if len(op) > 2 else 0) % len(clocks)]
                d = dt.date.fromisoformat(op[1])
                delta = (d - clock.today).days
                sim_days[0] += abs(delta)
                if delta < 0:
                    bump(faults, 'clock_jump_backward')
                elif delta > 0:
                    bump(faults, 'clock_jump_forward')
                clock.set(d)
                out = 'set'
            elif kind == 'bulk':
                ci = op[1] % len(convs)
                model = models[ci]
                bkind = model.kind or cfg['convs'][ci]['kind']
                if bkind == 'none':
                    log.append([i, 'skipped'])
                    continue
                base = cfg['convs'][ci]['base'] % n_cur
                others = [j for j in range(n_cur) if j != base]
                start = dt.date(2001, 1, 1)
                marks = []
                for step_ in range(op[2]):
                    if bkind == 'day':
                        d_ = start + dt.timedelta(days=step_)
                        vj = {'t': 'date', 'v': d_.isoformat()}
                    elif bkind == 'month':
                        d_ = dt.date(2001 + step_ // 12, 1 + step_ % 12, 15)
                        vj = {'t': 'tuple_int', 'v': [d_.year, d_.month]}
                    else:
                        d_ = dt.date(2001 + step_, 6, 30)
                        vj = {'t': 'int', 'v': d_.year}
                    specs = [[[j, 'obj'],
                              {'t': 'dec', 'v': '%d.%03d' % (
                                  1 + (step_ + op[3]) % 7,
                                  (step_ * 7 + j * 131 + op[3]) % 1000)},
                              {'t': 'int', 'v': 1}] for j in others]
                    must = model.update(vj, specs)
                    o = observe(lambda: ('ok', convs[ci].update(
                        mk_validity(vj),
                        [(curs[c], mk_amount(amt), mk_um(um))
                         for (c, _h), amt, um in specs])))
                    if (o[0] == 'ok') != must:
                        violate('update', 'accepted_invalid' if o[0] == 'ok'
                                else 'rejected_valid', i, validity=vj,
                                observed=list(o), bulk_step=step_)
                    if step_ in (0, op[2] // 2, op[2] - 1):
                        marks.append(d_)
                for d_ in marks:
                    if d_ not in probe_dates:
                        probe_dates.append(d_)
                bump(probes, 'long_feed_%d' % op[2])
                out = 'fed'
            elif kind == 'snapshot':
                ci = op[1] % len(convs)
                if len(convs) < 6:
                    import copy
                    convs.append(copy.deepcopy(convs[ci]))
                    models.append(copy.deepcopy(models[ci]))
                    cclk.append(cclk[ci])
                    cfg['convs'].append(dict(cfg['convs'][ci]))
                    bump(probes, 'converter_deep_copied')
                    out = 'copied'
                # a shallow copy, used for look-ups only and dropped again:
                # the same rates, the same base currency, the same clock
                clk = cclk[ci]
                if ci not in real_clock and clk.hook is None and \
                        not clk.armed and clk.fail_next is None:
                    import copy
                    sc = copy.copy(convs[ci])
                    bump(probes, 'converter_shallow_copied')
                    for a in range(len(curs)):
                        for b in range(len(curs)):
                            if a == b:
                                continue
                            e = expected_rate(ci, a, b, clk.today,
                                              count=False)
                            o = observe(lambda: canon_rate(
                                sc.get_rate(curs[a], curs[b])))
                            if e[0] != 'unjudged' and o != e:
                                violate('lookup', 'shallow_copy', i,
                                        conv=ci, pair=[a, b],
                                        expected=list(e), observed=list(o))
                    del sc
                else:
                    out = 'enough'
            elif kind == 'clockupdate':
                ci = op[1] % len(convs)
                base = cfg['convs'][ci]['base'] % n_cur
                specs = [[[s[0][0] % n_cur, s[0][1]], s[1], s[2]]
                         for s in op[3] if s[0][0] % n_cur != base]
                if cfg['convs'][ci]['clock'] == 'callable' and specs and \
                        RefRates.parse_validity(op[2]) is not None:
                    lib = [(curs[c] if how == 'obj' else curs[c].symbol,
                            mk_amount(amt), mk_um(um))
                           for (c, how), amt, um in specs]

                    def load(ci=ci, v=op[2], specs=specs, lib=lib):
                        hooked[ci] = (v, specs, observe(lambda: (
                            'ok', convs[ci].update(mk_validity(v), lib))))
                    cclk[ci].hook = load
                    out = 'armed'
                else:
                    out = 'not_armed'
            elif kind == 'clockfail':
                ci = op[2] % len(convs)
                if cfg['convs'][ci]['clock'] == 'callable':
                    cclk[ci].fail(CLOCK_ERRORS_BY_NAME[op[1]](
                        'booking_date'))
                    out = 'will_fail'
                else:
                    out = 'system_clock_does_not_fail'
            elif kind == 'tick':
                clock = cclk[(op[3] if len(op) > 3 else 0) % len(convs)]
                d = dt.date.fromisoformat(op[2])
                sim_days[0] += abs((d - clock.today).days)
                clock.arm(op[1] - 1, d)
                out = 'armed'
            else:
                raise core.HarnessError(f"unknown op {op}")
            log.append([i, op[0], out, sweep(i)])
    except Stop:
        pass
    if not shim_ok:
        probes['system_date_seam_unavailable'] = 1
    return {'digest': core.digest(log), 'violations': violations,
            'known': known, 'faults': faults, 'probes': probes,
            'ops': len(log), 'sim_days': sim_days[0],
            'reach': {'model_states': states[:60]},
            'log': log if h.get('want_log') else None}


def judge(h):
    res = core.run_in_child(execute, h)
    res['worlds'] = 1
    res['hist_digest'] = core.digest([h['cfg'], h['ops']])
    n_upd = sum(1 for op in h['ops'] if op[0] == 'update')
    res['nontrivial'] = bool(sum(res['faults'].values()) >= 1 and
                             n_upd >= 2 and res['ops'] >= 4)
    return res


def run_one(seed, run, tier):
    h = gen(seed, run, tier)
    res = judge(h)
    res['sample'] = h if run < 3 else None
    res.pop('log', None)
    return res


RULE = ("run i draws, from random.Random(splitmix64(VERIF_SEED,'C11',i)), "
        "3-5 currencies (ISO-registered or user-declared), 1-3 converters "
        "(base currency, clock via callable or via date.today, preferred "
        "kind of validity) and <=40 ops over {update(validity in any "
        "documented spelling, 1-4 rate specs with run-unique prime term "
        "amounts as Decimal/Fraction/int/float/str and unit multiples "
        "1/10/100), update with invalid validity, update with another kind "
        "of validity, get_rate / call with explicit or default date, clock "
        "jump, clock tick during the next default-date lookup, default-date "
        "callable that raises / that loads rates into the converter before "
        "it answers, feed of rate specs that breaks off / that makes another "
        "update while it is read / that names the base currency, rates "
        "above 1e6, late currencies, implicit conversions through the "
        "registered converter, deep copy of a converter}; after every "
        "op get_rate is swept over all ordered currency pairs x 6 probe "
        "dates x all converters and compared with RefRates. Distinct = "
        "digest of (configuration, ops); non-trivial = >=2 updates, >=1 "
        "fault fired (rejected update, clock jump, mid-lookup tick) and >=4 "
        "sweeps.")
ASSUMPTIONS = [
    "one thread; re-entrancy is simulated instead (an update made from "
    "inside another update's feed of rate specs, or by the default-date "
    "callable during a lookup; a lookup that overlaps an update may be "
    "answered from the state before or after it)",
    "ExchangeRate construction / inversion arithmetic is trusted (C09 is "
    "not claimed): expected rates are built with the library's own "
    "constructor from the spec the model selects",
    "only documented spellings of a validity are generated as valid and "
    "only clearly invalid ones as invalid; a feed with a rate spec "
    "naming the base currency may be refused as a whole or taken without "
    "that entry (two-outcome oracle); an update without rate specs counts "
    "as an update (it fixes the kind); copy.deepcopy of a converter gives "
    "an independent converter with the same past",
    "decimalfp pure-Python implementation (see DESIGN.md 2.11)",
]
REAL = ["quantity.money.MoneyConverter, ExchangeRate, Money, Currency from "
        "/repo/src", "decimalfp", "datetime.date arithmetic"]
STUBS = ["the clock: SimClock, passed as get_dflt_effective_date or reached "
         "through the module-level `date` shim (date.today)"]
