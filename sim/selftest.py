"""Self-tests of the simulator (not manifest checks).

  selftest.py sensitivity [--with-tests] [--only ID ...] [--budget S]
      apply each mutant of mutants/mutants.py to a scratch copy of /repo,
      run the targeted check(s) against it and expect a VIOLATION; run the
      other checks named with --others and expect silence.
  selftest.py determinism [--runs N] [--props C11 ...]
      run every check twice with 16 and with 3 workers and under three
      PYTHONHASHSEED values in fresh interpreters and diff the per-run
      event-log digests.
"""
from __future__ import annotations

import argparse
import json
import os
import shutil
import subprocess
import sys
import tempfile
import time

VERIF = os.path.dirname(os.path.dirname(os.path.abspath(__file__)))
sys.path.insert(0, VERIF)
ALL = ['C11', 'C12', 'C15', 'C16', 'C17']


def available():
    return [p for p in ALL
            if os.path.exists(os.path.join(VERIF, 'sim', p.lower() + '.py'))]


def run_check(prop, env=None, args=(), timeout=900):
    e = dict(os.environ)
    e.update(env or {})
    r = subprocess.run([os.path.join(VERIF, 'check'), prop, *args],
                       env=e, capture_output=True, text=True,
                       timeout=timeout)
    return r.returncode, r.stdout + r.stderr


def scratch_copy():
    d = tempfile.mkdtemp(prefix='vmut.', dir='/tmp')
    for name in ('src', 'tests', 'setup.cfg', 'pyproject.toml', 'setup.py'):
        src = os.path.join('/repo', name)
        if os.path.isdir(src):
            shutil.copytree(src, os.path.join(d, name),
                            ignore=shutil.ignore_patterns('__pycache__'))
        elif os.path.exists(src):
            shutil.copy(src, d)
    return d


def apply_mutant(d, m):
    edits = m.get('edits') or [m]
    for ed in edits:
        path = os.path.join(d, 'src', ed['file'])
        s = open(path).read()
        n = s.count(ed['old'])
        if n != 1:
            raise RuntimeError(f"mutant {m['id']}: 'old' occurs {n}x in "
                               f"{ed['file']}")
        open(path, 'w').write(s.replace(ed['old'], ed['new']))


def run_tests(d):
    e = dict(os.environ, PYTHONPATH=os.path.join(d, 'src'),
             PYTHONDONTWRITEBYTECODE='1')
    r = subprocess.run(['/venv/bin/python', '-m', 'pytest', '-q', '-x',
                        '-p', 'no:cacheprovider', '-n', '8',
                        os.path.join(d, 'tests')],
                       cwd=d, env=e, capture_output=True, text=True,
                       timeout=1800)
    tail = (r.stdout + r.stderr).strip().splitlines()[-1:]
    return r.returncode == 0, ' '.join(tail)


def sensitivity(args):
    from mutants.mutants import MUTANTS
    avail = available()
    rows = []
    bad = 0
    for m in MUTANTS:
        if args.only and m['id'] not in args.only:
            continue
        targets = [p for p in m['expect'] if p in avail]
        if not targets:
            continue
        d = scratch_copy()
        try:
            apply_mutant(d, m)
            green = None
            if args.with_tests:
                green, tail = run_tests(d)
            env = {'VERIF_REPO_SRC': os.path.join(d, 'src'),
                   'VERIF_REPLAY_DIR': os.path.join(d, 'replays')}
            res = {}
            props = list(targets)
            if args.others:
                props += [p for p in avail if p not in targets]
            for p in props:
                t0 = time.time()
                code, out = run_check(p, env, ['--no-evidence', '--budget',
                                               str(args.budget)])
                res[p] = (code, round(time.time() - t0, 1))
                if args.verbose:
                    print(out[-1500:])
            if m.get('control'):
                ok = all(res[p][0] == 0 for p in targets)
            else:
                ok = all(res[p][0] == 1 for p in targets)
            quiet = all(res[p][0] == 0 or p in m.get('may', [])
                        for p in props if p not in targets)
            if not ok or not quiet:
                bad += 1
            rows.append((m['id'], green, res, ok, quiet))
            print(f"{m['id']:40s} tests_green={green} "
                  f"{' '.join(f'{p}:exit{c}/{t}s' for p, (c, t) in res.items())}"
                  f" -> {'CAUGHT' if ok else 'MISSED'}"
                  f"{'' if quiet else ' (other checks alarmed)'}", flush=True)
        finally:
            shutil.rmtree(d, ignore_errors=True)
    print(f"{len(rows)} mutants, {bad} not as expected")
    return 1 if bad else 0


def determinism(args):
    props = args.props or available()
    bad = 0
    for p in props:
        maps = []
        confs = [('0', '16'), ('0', '3'), ('1', '16'), ('4242', '7')]
        for hs, w in confs:
            f = tempfile.mktemp(prefix='vdig.', dir='/tmp')
            code, out = run_check(p, {'PYTHONHASHSEED': hs,
                                      'VERIF_WORKERS': w,
                                      'VERIF_SEED': str(args.seed)},
                                  ['--no-evidence', '--runs', str(args.runs),
                                   '--budget', '100000', '--digests', f])
            if code != 0:
                print(out[-2000:])
            maps.append(json.load(open(f)))
            os.unlink(f)
        ref = maps[0]
        for (hs, w), mp in zip(confs[1:], maps[1:]):
            diff = [k for k in ref if mp.get(k) != ref[k]]
            if diff or len(mp) != len(ref):
                bad += 1
                print(f"{p}: DIVERGENCE hashseed={hs} workers={w}: "
                      f"{len(diff)} of {len(ref)} runs differ, e.g. run "
                      f"{diff[:5]}")
        print(f"{p}: {len(ref)} runs x {len(confs)} configurations "
              f"(PYTHONHASHSEED/workers {confs}) compared", flush=True)
    print('determinism:', 'FAILED' if bad else 'ok')
    return 1 if bad else 0


def main():
    ap = argparse.ArgumentParser()
    sub = ap.add_subparsers(dest='cmd', required=True)
    s = sub.add_parser('sensitivity')
    s.add_argument('--with-tests', action='store_true')
    s.add_argument('--others', action='store_true')
    s.add_argument('--only', nargs='*')
    s.add_argument('--budget', type=float, default=10.0)
    s.add_argument('-v', '--verbose', action='store_true')
    d = sub.add_parser('determinism')
    d.add_argument('--runs', type=int, default=2000)
    d.add_argument('--seed', type=int, default=0)
    d.add_argument('--props', nargs='*')
    args = ap.parse_args()
    return sensitivity(args) if args.cmd == 'sensitivity' \
        else determinism(args)


if __name__ == '__main__':
    sys.exit(main())
