"""World bootstrap: imports the library under test from the repository's
*current working tree* and provides the clock seam.

The process that calls `load()` becomes the template; every simulated world is
an `os.fork()` of it (sim.core.run_in_child), i.e. a pristine interpreter
state with the library imported and nothing declared.
"""
from __future__ import annotations

import datetime as _dt
import os
import sys

REPO_SRC = None
_loaded = False


def load(repo_src: str = None):
    """Import quantity and quantity.money from `repo_src`
    (default: $VERIF_REPO_SRC or /repo/src)."""
    global REPO_SRC, _loaded
    if _loaded:
        return
    repo_src = repo_src or os.environ.get('VERIF_REPO_SRC', '/repo/src')
    repo_src = os.path.abspath(repo_src)
    REPO_SRC = repo_src
    # the working tree always wins over an installed copy
    sys.path.insert(0, repo_src)
    for name in list(sys.modules):
        if name == 'quantity' or name.startswith('quantity.'):
            del sys.modules[name]
    _patch_decimalfp()
    import quantity
    import quantity.money
    here = os.path.abspath(quantity.__file__)
    if not here.startswith(repo_src + os.sep):
        raise RuntimeError(f"quantity imported from {here}, "
                           f"expected below {repo_src}")
    _loaded = True


DECIMAL_IMPL = None


def _patch_decimalfp():
    """Worlds use decimalfp's pure-Python implementation (the C extension of
    the installed 0.13.0 corrupts the heap when a Decimal of precision 9 is
    divided, e.g. Length(5, nm).convert(m)).  Its helper `_approx_rational`
    finds out that a quotient does not terminate by trying precisions up to
    65535, which takes seconds; it is replaced by the closed form with the
    same contract (both callers only test the remainder for zero)."""
    global DECIMAL_IMPL
    import decimalfp
    from math import gcd
    if 'decimalfp._cdecimalfp' in sys.modules and \
            decimalfp.Decimal is sys.modules['decimalfp._cdecimalfp'].Decimal:
        DECIMAL_IMPL = 'decimalfp C extension'
        return
    from decimalfp import _pydecimalfp as m
    if decimalfp.Decimal is not m.Decimal:
        DECIMAL_IMPL = 'decimalfp C extension'
        return
    DECIMAL_IMPL = 'decimalfp pure-Python implementation'
    if getattr(m._approx_rational, '_verif_fast', False):
        return
    max_prec = m.MAX_DEC_PRECISION

    orig = m._approx_rational

    def _approx_rational(num, den, min_prec=0):
        if num == 0:
            return 0, min_prec, 0
        if den == 0:
            return orig(num, den, min_prec)     # raises, as the original
        g = gcd(num, den)
        n, d = num // g, den // g
        if d < 0:
            n, d = -n, -d
        a = b = 0
        while d % 2 == 0:
            d //= 2
            a += 1
        while d % 5 == 0:
            d //= 5
            b += 1
        p = max(a, b)
        if d != 1 or p > max_prec:
            return 0, max_prec, 1       # does not terminate: remainder != 0
        v = n * 2 ** (p - a) * 5 ** (p - b)
        return v, p, 0

    _approx_rational._verif_fast = True
    _approx_rational._orig = orig
    m._approx_rational = _approx_rational
    DECIMAL_IMPL += ' (+closed-form _approx_rational)'


def load_predefined():
    import quantity.predefined  # noqa: F401


# --------------------------------------------------------------------------
# clock seam

class SimClock:
    """The only clock a simulated world can read.

    `reads` counts reads; `script` maps the ordinal of a read (0-based,
    counted from the moment the script was armed) to a new date that takes
    effect *from that read on* ("the clock ticks while a lookup is under
    way").
    """

    def __init__(self, today: _dt.date):
        self.today = today
        self.reads = 0
        self.script = {}
        self.armed_at = 0
        self.armed = False
        self.trace = []     # dates handed out since last reset_trace()
        self.fail_next = None   # exception the next read raises
        self.raised = None      # ... and the one that was raised
        self.hook = None        # called once by the next read
        # the simulated wall clock behind the date: local time of day and
        # the offset of local time from UTC (only code that asks for a
        # datetime or for UTC can tell)
        self.hour = 12
        self.utc_offset = _dt.timedelta(0)
        self.as_datetime = False

    def fail(self, exc: BaseException):
        self.fail_next = exc
        self.raised = None

    def set(self, d: _dt.date):
        self.today = d

    def __deepcopy__(self, memo):
        # a clock is an outside resource: the copy of a converter asks the
        # same clock
        return self

    def arm(self, nth: int, d: _dt.date):
        self.armed_at = self.reads
        self.script = {nth: d}
        self.armed = True

    def disarm(self):
        self.script = {}
        self.armed = False

    def reset_trace(self):
        self.trace = []

    def __call__(self) -> _dt.date:
        k = self.reads - self.armed_at
        self.reads += 1
        if self.fail_next is not None:
            self.raised, self.fail_next = self.fail_next, None
            raise self.raised
        if self.hook is not None:
            hook, self.hook = self.hook, None
            hook()
        if k in self.script:
            self.today = self.script.pop(k)
        self.trace.append(self.today)
        if self.as_datetime:
            # a clock like datetime.now: a datetime is a date, too
            return _dt.datetime.combine(
                self.today, _dt.time(self.hour, 30))
        return self.today


class EmptyLookingClock(SimClock):
    """A clock that is also a container (of the dates pinned so far, say)
    and happens to be empty: callable, returns a date - and is falsy."""

    def __len__(self):
        return 0


def install_date_shim(clock: SimClock):
    """Replace the name `date` in quantity.money (this world only) by a shim
    whose `today()` reads the simulated clock.

    Everything else behaves like datetime.date and yields *real* date
    objects, and isinstance(x, shim) is isinstance(x, datetime.date); this
    keeps type(validity) is datetime.date, which the converter's period
    mapping is keyed by.
    """
    import quantity.money as qm
    real = _dt.date

    class _Meta(type):
        def __instancecheck__(cls, obj):
            return isinstance(obj, real)

        def __subclasscheck__(cls, sub):
            return issubclass(sub, real)

    class date(metaclass=_Meta):   # noqa: N801
        min = real.min
        max = real.max
        resolution = real.resolution

        def __new__(cls, *a, **kw):
            return real(*a, **kw)

        @staticmethod
        def today():
            return clock()

        fromisoformat = staticmethod(real.fromisoformat)
        fromordinal = staticmethod(real.fromordinal)
        fromtimestamp = staticmethod(real.fromtimestamp)
        fromisocalendar = staticmethod(real.fromisocalendar)

    qm.date = date
    _install_datetime_shim(qm, clock, date)
    return date


def _install_datetime_shim(qm, clock, date_shim):
    """Should the module (after some refactoring) read the time through
    other names - the class `datetime`, the module `datetime`, the module
    `time` - these read the simulated clock, too: local wall time is
    clock() at clock.hour, UTC is clock.utc_offset behind it."""
    import types
    real_dt = _dt.datetime

    def local_now():
        return real_dt.combine(clock(), _dt.time(clock.hour, 17, 5))

    class _MetaDT(type):
        def __instancecheck__(cls, obj):
            return isinstance(obj, real_dt)

        def __subclasscheck__(cls, sub):
            return issubclass(sub, real_dt)

    class datetime(metaclass=_MetaDT):     # noqa: N801
        min, max, resolution = real_dt.min, real_dt.max, real_dt.resolution

        def __new__(cls, *a, **kw):
            return real_dt(*a, **kw)

        @staticmethod
        def now(tz=None):
            if tz is None:
                return local_now()
            utc = (local_now() - clock.utc_offset).replace(
                tzinfo=_dt.timezone.utc)
            return utc.astimezone(tz)

        @staticmethod
        def today():
            return local_now()

        @staticmethod
        def utcnow():
            return local_now() - clock.utc_offset

        fromisoformat = staticmethod(real_dt.fromisoformat)
        fromtimestamp = staticmethod(real_dt.fromtimestamp)
        fromordinal = staticmethod(real_dt.fromordinal)
        combine = staticmethod(real_dt.combine)
        strptime = staticmethod(real_dt.strptime)

    have = getattr(qm, 'datetime', None)
    if isinstance(have, type):
        qm.datetime = datetime
    elif isinstance(have, types.ModuleType):
        ns = types.SimpleNamespace(**{k: getattr(_dt, k) for k in dir(_dt)
                                      if not k.startswith('__')})
        ns.date, ns.datetime = date_shim, datetime
        qm.datetime = ns
    have = getattr(qm, 'time', None)
    if isinstance(have, types.ModuleType):
        import time as _time
        ns = types.SimpleNamespace(**{k: getattr(_time, k)
                                      for k in dir(_time)
                                      if not k.startswith('__')})

        def now_epoch():
            utc = (local_now() - clock.utc_offset).replace(
                tzinfo=_dt.timezone.utc)
            return utc.timestamp()
        ns.time = now_epoch
        ns.time_ns = lambda: int(now_epoch() * 10 ** 9)
        ns.localtime = lambda t=None: (
            local_now().timetuple() if t is None else _time.localtime(t))
        ns.gmtime = lambda t=None: (
            (local_now() - clock.utc_offset).timetuple() if t is None
            else _time.gmtime(t))
        qm.time = ns
