"""C16 - rejected declarations leave no trace.

The system is its own oracle, one fault-free twin per history: world A runs a
history containing declarations / converter updates that the library
rejects, world B (fresh fork, same template, same hash seed) runs the same
history with exactly the rejected steps deleted.  After every step the two
worlds must be indistinguishable through the public API.

Three forks per run: A1 resolves intents into concrete actions and finds out
which ones are rejected; A2 (all actions) and B (rejected ones deleted) then
run *identical* executor code and emit an observation vector after each step.
"""
from __future__ import annotations

import datetime as dt
from fractions import Fraction

from sim import core, decl

PROP = 'C16'
VARIANTS = ['bare', 'predefined']
VARIANT_WORKER_SHARE = {'bare': 0.75, 'predefined': 0.25}
MAX_OPS = 40

DECL_INTENTS = ['base_type', 'derived_type', 'dup_dimension', 'scaled_unit',
                'alias_unit',
                'term_unit', 'wrong_dim_term', 'derive_unit', 'derive_bad',
                'plain_unit', 'currency_reg', 'currency_new', 'dup_symbol',
                'empty_symbol', 'wrong_type_scaled']
OWN_INTENTS = ['bad_currency', 'bad_type', 'scaled_on_noref', 'reuse',
               'permuted',
               'operate', 'conv_new',
               'conv_update', 'conv_update_bad', 'evict']
PROBE_DATES = ['2024-02-29', '2024-03-01', '2023-02-28', '1999-12-31']


def variant_of(seed, run):
    rng = core.rng_for(seed, PROP + ':variant', run)
    return 'predefined' if rng.random() < 0.15 else 'bare'


def gen(seed, run, tier='quick'):
    rng = core.rng_for(seed, PROP, run)
    variant = variant_of(seed, run)
    w = {
        'base_type': 2, 'derived_type': rng.choice([2, 4]),
        'dup_dimension': rng.choice([1, 2, 4]),
        'scaled_unit': rng.choice([2, 4]), 'term_unit': rng.choice([1, 2]),
        'alias_unit': rng.choice([0, 1]),
        'wrong_dim_term': rng.choice([0, 1, 2]),
        'derive_unit': rng.choice([1, 2]), 'derive_bad': rng.choice([0, 1]),
        'plain_unit': 1, 'currency_reg': rng.choice([1, 2]),
        'currency_new': 1, 'dup_symbol': rng.choice([0, 1, 2]),
        'empty_symbol': rng.choice([0, 1]),
        'wrong_type_scaled': rng.choice([0, 1]),
        'bad_currency': rng.choice([0, 1, 2]),
        'bad_type': rng.choice([0, 1, 2]),
        'scaled_on_noref': rng.choice([0, 1, 2]),
        'operate': rng.choice([0, 2, 4, 6]),
        'reuse': rng.choice([2, 4, 6]),
        'conv_new': rng.choice([0, 1, 2]),
        'conv_update': rng.choice([0, 2, 4]),
        'conv_update_bad': rng.choice([0, 2, 4]),
        'set_rounding': rng.choice([0, 0, 1]),
        'evict': rng.choice([0, 1]),
    }
    kinds = list(w)
    weights = [w[k] for k in kinds]
    n_ops = rng.randrange(4, (70 if tier == 'thorough' else MAX_OPS) + 1)
    if rng.random() < 0.02:
        # a long-lived process: a few runs are several times longer than
        # the rest (bounded caches evict, counters grow)
        n_ops = rng.randrange(120, 200)
    ops = []
    for _ in range(rng.choice([1, 2, 2])):
        ops.append(['base_type'] + [rng.randrange(1 << 16) for _ in range(4)])
    if rng.random() < 0.6:
        for _ in range(2):
            ops.append(['currency_reg', rng.randrange(1 << 16)])
    while len(ops) < n_ops:
        k = rng.choices(kinds, weights)[0]
        ops.append([k] + [rng.randrange(1 << 16) for _ in range(12)])
        if k in ('dup_symbol', 'dup_dimension', 'bad_type') and \
                rng.random() < 0.5:
            ops.append(['permuted'] + [rng.randrange(1 << 16)
                                       for _ in range(12)])
    if rng.random() < 0.2:
        # converter scenario: a new converter, an update without rate specs
        # (fixes the kind), a rejected update of that kind, an update of
        # another kind (must be refused), a valid update
        rr = lambda: [rng.randrange(1 << 16) for _ in range(12)]    # noqa
        pos = rng.randrange(len(ops) // 2, len(ops) + 1)
        seq = [['currency_reg'] + rr(), ['currency_reg'] + rr(),
               ['conv_new'] + rr()]
        e = rr(); e[0] = 65535; e[11] = 10
        seq.append(['conv_update'] + e)
        b = rr(); b[0] = 65535; b[7] = rng.choice([2, 3])
        seq.append(['conv_update_bad'] + b)
        if rng.random() < 0.5:
            # the user switches the rounding mode and feeds the good part
            # of the rejected feed again
            seq.append(['set_rounding'] + rr())
            f = rr(); f[0] = 65535; f[10] = 2
            seq.append(['conv_update'] + f)
        m = rr(); m[0] = 65535; m[7] = 1
        seq.append(['conv_update_bad'] + m)
        v = rr(); v[0] = 65535; v[11] = 1
        seq.append(['conv_update'] + v)
        ops[pos:pos] = seq
    if rng.random() < 0.35:
        # operation-cache scenario (see _scenario_step), somewhere in the
        # second half of the history
        rr = [rng.randrange(1 << 16) for _ in range(12)]
        pos = rng.randrange(len(ops) // 2, len(ops) + 1)
        ops[pos:pos] = [['scn'] + rr for _ in range(9)]
    return {'cfg': {'variant': variant,
                    'rounding': rng.choice(ROUNDINGS),
                    # callers on several threads: in a quarter of the runs
                    # every `threads`-th step (by its arguments) is made
                    # from a fresh thread while the main thread lives on
                    'threads': rng.choice([0, 0, 0, 2, 3, 5]),
                    # the process runs with warnings turned into errors
                    # (python -W error, a strict test configuration)
                    'warnings_as_errors': rng.random() < 0.25},
            'ops': ops}


def shrink_args(h):
    import copy
    for i, op in enumerate(h['ops']):
        if any(x > 16 for x in op[1:]):
            c = copy.deepcopy(h)
            c['ops'][i] = [op[0]] + [x % 16 for x in op[1:]]
            yield c


# --------------------------------------------------------------------------
# resolution of this check's own intents

BAD_CURRENCY = [
    {'a': 'currency_reg', 'code': 'ZZZ'},
    {'a': 'currency_reg', 'code': 'QQQ'},
    {'a': 'currency_new', 'minor': -1, 'sf': None},
    {'a': 'currency_new', 'minor': 2.5, 'sf': None},
    {'a': 'currency_new', 'minor': None, 'sf': '0'},
    {'a': 'currency_new', 'minor': None, 'sf': '-0.01'},
    {'a': 'currency_new', 'minor': None, 'sf': '0.03'},
    {'a': 'currency_new', 'minor': 2, 'sf': '0.1'},
    {'a': 'currency_new', 'minor': None, 'sf': 'abc'},
    {'a': 'currency_new', 'minor': None, 'sf': '1'},
]
BAD_SPECS = [
    ['amount', {'t': 'str', 'v': '-1'}], ['amount', {'t': 'int', 'v': '0'}],
    ['amount', {'t': 'str', 'v': 'abc'}],
    ['amount', {'t': 'dec', 'v': '0.0000001'}],
    ['um', {'t': 'int', 'v': 0}], ['um', {'t': 'dec', 'v': '2.5'}],
    ['um', {'t': 'int', 'v': -10}],
    ['cur', 'base'], ['cur', 'unknown'], ['cur', 'int'],
    ['cur+amount', 'iso'], ['cur+later', 'iso'],
]
MORE_ISO = ['CHF', 'SEK', 'NOK', 'DKK', 'CAD', 'AUD', 'NZD', 'PLN', 'CZK',
            'KWD', 'BHD', 'CLF']
VALIDITIES = {
    'none': [{'t': 'none'}],
    'year': [{'t': 'int', 'v': 2024}, {'t': 'str', 'v': '2023'},
             {'t': 'int', 'v': 1999}],
    'month': [{'t': 'tuple_int', 'v': [2024, 2]},
              {'t': 'str', 'v': '2024-03'},
              {'t': 'tuple_str', 'v': ['2023', '02']}],
    'day': [{'t': 'date', 'v': '2024-02-29'},
            {'t': 'str', 'v': '2024-03-01'},
            {'t': 'date', 'v': '1999-12-31'}],
}
BAD_VALIDITIES = [{'t': 'str', 'v': '2020-13'}, {'t': 'int', 'v': 0},
                  {'t': 'tuple_int', 'v': [2020, 13]},
                  {'t': 'float', 'v': 2020.5}, {'t': 'str', 'v': 'x'},
                  {'t': 'str', 'v': '2021-02-29'}]
PRIMES = [1009, 1013, 1019, 1021, 1031, 1033, 1039, 1049, 1051, 1061, 1063,
          1069, 1087, 1091, 1093, 1097, 1103, 1109, 1117, 1123, 1129, 1151,
          1153, 1163, 1171, 1181, 1187, 1193, 1201, 1213, 1217, 1223, 1229,
          1231, 1237, 1249, 1259, 1277, 1279, 1283, 1289, 1291, 1297, 1301,
          1303, 1307, 1319, 1321, 1327, 1361, 1367, 1373, 1381, 1399, 1409,
          1423, 1427, 1429, 1433, 1439, 1447, 1451, 1453, 1459, 1471, 1481,
          1483, 1487, 1489, 1493, 1499, 1511, 1523, 1531, 1543, 1549, 1553,
          1559, 1567, 1571, 1579, 1583, 1597, 1601, 1607, 1609, 1613, 1619]


class State:
    """Resolver-side bookkeeping on top of RefDir (world A1 only)."""

    def __init__(self):
        self.model = decl.RefDir()
        self.convs = {}         # name -> {'base': sym, 'kind': str|None}
        self.burnt = []         # (symbol, how it was rejected)
        self.rej_dims = []      # items of types rejected for other reasons
        self.rej_terms = []     # rejected term definitions (wrong type)
        self.term_pairs = []    # (s1, s2, op) that term definitions use
        self.scn = None         # running operation-cache scenario
        self.last_rejected_type = None
        self.last_iter = None   # (converter, iterator name, specs)
        self.last_rejected_specs = None     # (converter, validity, specs)
        self.n_amount = 0
        self.model_gaps = 0     # accepted steps the model could not follow

    def amount(self):
        p = PRIMES[self.n_amount % len(PRIMES)]
        self.n_amount += 1
        return {'t': ['dec', 'frac', 'str', 'int'][self.n_amount % 4]
                if self.n_amount % 4 != 3 else 'dec',
                # every third one with eight decimals: its rate is rounded
                'v': f"{p // 1000}.{p % 1000:03d}" + (
                    f"{p * 7919 % 100000:05d}" if self.n_amount % 3 == 0
                    else '')}


def resolve(st: State, op):
    kind = op[0]
    r = op[1:] + [0] * 12
    model = st.model
    if kind in DECL_INTENTS:
        return decl.resolve(model, op)
    n = model.fresh()
    if kind == 'evict':
        return {'a': 'evict', 'expect': 'accept'}
    if kind == 'bad_currency' and r[1] % 5 == 0:
        # a currency declared on a type derived from Money: whatever the
        # library makes of it, if it refuses nothing may stay behind
        return {'a': 'subtype_currency', 'name': f'V{n}', 'sym': f'C{n}',
                'expect': 'follow', 'bad': 'currency_on_a_money_subtype'}
    if kind == 'bad_currency':
        act = dict(BAD_CURRENCY[r[0] % len(BAD_CURRENCY)])
        if act['a'] == 'currency_new':
            act['sym'] = f'C{n}'
        act.update(expect='reject', bad='currency_params')
        return act
    if kind == 'bad_type':
        form = r[0] % 6
        if form in (4, 5) and model.uorder:
            # a Term, but not of quantity types: a term of units, or one
            # with a number in it - with an explicit reference symbol
            return {'a': 'bad_term_type', 'name': f'D{n}',
                    'unit': decl._pick(model.uorder, r[1]),
                    'with_number': form == 5, 'ref_sym': f'r{n}',
                    'expect': 'reject', 'bad': 'term_of_wrong_elements'}
        form %= 4
        if form == 3 and model.uorder:
            # a type derived from Money whose reference symbol is taken,
            # declared through the namespace dict the other types share
            return {'a': 'money_subtype', 'name': f'V{n}',
                    'sym': decl._pick(model.uorder, r[1]),
                    'expect': 'reject', 'bad': 'money_subtype_taken_symbol'}
        form %= 3
        if form == 0:
            # quantum without reference unit
            return {'a': 'base_type', 'name': f'T{n}', 'ref_sym': None,
                    'quantum': '1/8', 'expect': 'reject',
                    'bad': 'quantum_without_ref'}
        if form == 1:
            return {'a': 'base_type', 'name': f'T{n}', 'ref_sym': f'r{n}',
                    'quantum': None, 'unknown_kw': True, 'expect': 'reject',
                    'bad': 'unknown_keyword'}
        # definition that is not a term of quantity types
        return {'a': 'derived_type', 'name': f'D{n}', 'items': [],
                'style': 3, 'ref_sym': f'r{n}', 'auto_ref': False,
                'quantum': None, 'expect': 'reject', 'bad': 'not_a_term'}
    if kind == 'set_rounding':
        return {'a': 'set_rounding', 'mode': ROUNDINGS[r[0] % len(ROUNDINGS)],
                'expect': 'accept'}
    if kind == 'scn':
        return _scenario_step(st, n, r)
    if kind == 'permuted':
        # directly after a rejected type declaration: a valid type over the
        # same factor types, in another order, with a generated symbol
        last = st.last_rejected_type
        if not last:
            return None
        refs = []
        for tn, _e in last:
            if tn in model.types and model.has_ref(tn) and tn not in refs:
                refs.append(tn)
        if len(refs) < 2:
            return None
        items = [[refs[1], 1], [refs[0], 1]] + [[t, 1] for t in refs[2:3]]
        dim = {}
        for tn, e in items:
            dim = decl.dim_add(dim, model.types[tn]['dim'], e)
        if decl.dim_key(dim) in model.dims:
            return None
        return {'a': 'derived_type', 'name': f'D{n}', 'items': items,
                'style': 0, 'ref_sym': None, 'auto_ref': True,
                'quantum': None, 'expect': 'accept', 'dup_dim': False,
                'reuse': 'factors'}
    if kind == 'operate':
        # an operation as a step of the history (it is not read-only: it
        # fills the operation memo), its result is compared between worlds
        pairs = st.term_pairs
        if pairs and r[0] % 3:
            s1, s2, opn = pairs[r[1] % len(pairs)]
        else:
            if not model.uorder:
                return None
            s1 = decl._pick(model.uorder, r[1])
            s2 = decl._pick(model.uorder, r[2])
            opn = '*/'[r[3] % 2]
        if s1 not in model.units or s2 not in model.units:
            return None
        return {'a': 'operate', 's1': s1, 's2': s2, 'op': opn,
                'expect': 'accept'}
    if kind == 'scaled_on_noref':
        # 'k * unit' as definition of a unit of a type WITHOUT reference
        # unit: whatever the library makes of it (the documentation says
        # such units "can just be instantiated without giving a
        # definition"), a rejection must leave nothing behind
        cands = [tn for tn in model.order if model.types[tn]['base']
                 and model.types[tn]['ref'] is None
                 and not model.types[tn]['money']
                 and model.types[tn]['units']]
        tn = decl._pick(cands, r[0])
        if tn is None:
            return None
        k = [{'t': 'int', 'v': '1'}, {'t': 'int', 'v': '1'},
             {'t': 'int', 'v': '3'}, {'t': 'dec', 'v': '0.5'}][r[2] % 4]
        if r[3] % 2 and model.uorder:
            # ... under a symbol that is taken: rejected whatever the
            # library thinks of the definition
            return {'a': 'scaled_unit', 'type': tn,
                    'sym': decl._pick(model.uorder, r[4]),
                    'parent': decl._pick(model.types[tn]['units'], r[1]),
                    'k': k, 'via': 'rmul', 'expect': 'reject',
                    'bad': 'taken_symbol_on_type_without_reference_unit'}
        return {'a': 'scaled_unit', 'type': tn, 'sym': f'u{n}',
                'parent': decl._pick(model.types[tn]['units'], r[1]),
                'k': k, 'via': 'rmul', 'expect': 'follow', 'noref': True,
                'bad': 'scaled_unit_on_type_without_reference_unit'}
    if kind == 'reuse':
        # a *valid* declaration that wants the symbol (or dimension) of an
        # earlier rejected one
        if st.rej_dims and r[0] % 3 == 0:
            items = st.rej_dims[r[1] % len(st.rej_dims)]
            dim = {}
            for tn, e in decl.merge_items(items):
                dim = decl.dim_add(dim, model.types[tn]['dim'], e)
            if not dim or decl.dim_key(dim) in model.dims:
                return None
            all_ref = all(model.has_ref(tn) for tn, _ in items)
            return {'a': 'derived_type', 'name': f'D{n}', 'items': items,
                    'style': r[2] % 3, 'ref_sym': f'r{n}' if all_ref
                    else None, 'auto_ref': False, 'quantum': None,
                    'expect': 'accept', 'reuse': 'dimension'}
        if st.rej_terms and r[0] % 3 == 1:
            # the term of a rejected definition, now for the right type
            old = st.rej_terms[r[1] % len(st.rej_terms)]
            if all(s in model.units for s, _ in old['items']):
                tn = model.dims.get(decl.dim_key(
                    model.term_dim(old['items'])))
                if tn is not None and model.has_ref(tn) and \
                        (model.types[tn]['quantum'] is None
                         or not old.get('nums')):
                    t = model.types[tn]
                    shape = [[model.units[s]['type'], e]
                             for s, e in old['items']]
                    if not old.get('nums') and t['items'] is not None and \
                            shape == [list(i) for i in t['items']] and \
                            r[2] % 2:
                        # the same term, declared with derive_unit_from
                        return {'a': 'derive_unit', 'type': tn,
                                'units': [s for s, _ in old['items']],
                                'sym': f'u{n}', 'expect': 'accept',
                                'reuse': 'term'}
                    act = {k: v for k, v in old.items() if k != 'bad'}
                    act.update(type=tn, sym=f'u{n}', expect='accept',
                               reuse='term')
                    return act
        cands = [s for s, _ in st.burnt if s not in model.units]
        s = decl._pick(cands, r[1])
        if s is None:
            return None
        form = r[2] % 4
        if form == 0:
            return {'a': 'base_type', 'name': f'T{n}', 'ref_sym': s,
                    'quantum': None, 'expect': 'accept', 'reuse': 'symbol'}
        if form == 1:
            tn = decl._pick(model.types_with_ref(), r[3])
            if tn is not None:
                return {'a': 'scaled_unit', 'type': tn, 'sym': s,
                        'parent': model.types[tn]['units'][0],
                        'k': decl._pick(decl.INT_NUMS, r[4]), 'via': 'rmul',
                        'expect': 'accept', 'reuse': 'symbol'}
        if form == 2:
            cands = [tn for tn in model.order if model.types[tn]['base']
                     and model.types[tn]['ref'] is None
                     and not model.types[tn]['money']]
            tn = decl._pick(cands, r[3])
            if tn is not None:
                return {'a': 'plain_unit', 'type': tn, 'sym': s,
                        'expect': 'accept', 'reuse': 'symbol'}
        return {'a': 'currency_new', 'sym': s, 'minor': 2, 'sf': None,
                'expect': 'accept', 'reuse': 'symbol'}
    curs = model.types['Money']['units']
    if kind == 'conv_new':
        base = decl._pick(curs, r[0])
        if base is None or len(st.convs) >= 3:
            return None
        return {'a': 'conv_new', 'name': f'K{n}', 'base': base,
                'expect': 'accept'}
    if kind in ('conv_update', 'conv_update_bad'):
        cn = list(st.convs)[-1] if st.convs and r[0] == 65535 \
            else decl._pick(list(st.convs), r[0])
        if cn is None:
            return None
        c = st.convs[cn]
        others = [s for s in curs if s != c['base']]
        if not others:
            return None
        pref = c['kind'] or ['none', 'year', 'month', 'day'][r[1] % 4]
        validity = VALIDITIES[pref][r[2] % len(VALIDITIES[pref])]
        nspec = 1 + r[3] % 3
        if kind == 'conv_update' and r[11] % 10 == 0:
            nspec = 0           # an update without rate specs
        specs = []
        for j in range(nspec):
            cur = others[(r[4] + j) % len(others)]
            specs.append([{'sym': cur, 'as': 'obj' if (r[5] + j) % 3
                           else 'str'}, st.amount(),
                          {'t': 'int', 'v': [1, 1, 10, 100][(r[6] + j) % 4]}])
        act = {'a': 'conv_update', 'conv': cn, 'validity': validity,
               'specs': specs, 'expect': 'accept'}
        if (r[2] + r[6]) % 3 == 0:
            # the update is made inside `with conv:`; what it raises leaves
            # the block
            act['in_block'] = True
        # the rate specs may come from a named one-shot iterator that the
        # caller uses again for its next update (after a rejected one)
        if r[10] % 4 == 0:
            act['iter'] = f'it{n}'
        elif r[10] % 4 == 1 and st.last_iter and kind == 'conv_update' \
                and st.last_iter[0] == cn:
            act['iter'] = st.last_iter[1]
            act['specs'] = specs = [list(map(
                lambda x: dict(x) if isinstance(x, dict) else x, sp))
                for sp in st.last_iter[2]]
            nspec = len(specs)
        if kind == 'conv_update' and r[10] % 4 == 2 and \
                st.last_rejected_specs and \
                st.last_rejected_specs[0] == cn:
            # the quotations of the last rejected feed, fed again - now
            # without the faulty entry
            act['validity'] = st.last_rejected_specs[1]
            act['specs'] = [[dict(sp[0]), dict(sp[1]), dict(sp[2])]
                            for sp in st.last_rejected_specs[2]]
            act.pop('iter', None)
            act['refeed'] = True
        if kind == 'conv_update':
            return act
        mode = r[7] % 4
        if mode == 0:
            act['validity'] = BAD_VALIDITIES[r[8] % len(BAD_VALIDITIES)]
            act['bad'] = 'invalid_validity'
        elif mode == 1 and c['kind'] is not None:
            other = [k for k in ('none', 'year', 'month', 'day')
                     if k != c['kind']][r[8] % 3]
            act['validity'] = VALIDITIES[other][r[9] % len(
                VALIDITIES[other])]
            act['bad'] = 'mixed_kind'
        else:
            pos = r[8] % nspec
            what, val = BAD_SPECS[r[9] % len(BAD_SPECS)]
            spec = specs[pos]
            if r[9] % 7 == 6:
                # the iterable of rate specs itself fails after `pos`
                # entries (a feed that cannot be read any further)
                act['feed_error_at'] = pos
                what, val = 'feed', None
            if what == 'feed':
                pass
            elif what == 'amount':
                spec[1] = val
            elif what == 'um':
                spec[2] = val
            elif val == 'base':
                spec[0] = {'sym': c['base'], 'as': 'obj'}
            elif val == 'iso':
                # a real ISO 4217 code that is NOT registered, given by
                # symbol, in an update that is rejected for another reason
                # as well (bad amount in the same or in a later spec)
                free = [c for c in MORE_ISO + decl.ISO_CODES
                        if c not in model.units]
                code = free[r[10] % len(free)]
                if what == 'cur+amount' or pos == nspec - 1:
                    spec[0] = {'sym': code, 'as': 'str'}
                    spec[1] = {'t': 'str', 'v': 'abc'}
                else:
                    spec[0] = {'sym': code, 'as': 'str'}
                    specs[-1][1] = {'t': 'str', 'v': '-1'}
                act['names_symbol'] = code
            elif val == 'unknown':
                spec[0] = {'sym': 'ZZZ', 'as': 'str'}
            else:
                spec[0] = {'sym': '17', 'as': 'int'}
            act['bad'] = f'invalid_rate_spec_at_{pos + 1}_of_{nspec}'
            if pos > 0:
                act['bad_after_valid'] = True
                if what != 'feed' and (c['kind'] is None or
                                       c['kind'] == pref):
                    act['valid_prefix'] = [
                        [dict(sp[0]), dict(sp[1]), dict(sp[2])]
                        for sp in specs[:pos]]
        act['expect'] = 'reject'
        return act
    raise ValueError(f"unknown intent {op}")


def _scenario_step(st: State, n, r):
    """Scenario 'a rejected declaration next to an operation and to the valid
    declaration that changes how that operation resolves': consecutive 'scn'
    intents walk through  [operate] - rejected - valid - rejected - operate
    (the middle part in either order) for one pair of units (a, b) whose
    product or quotient belongs to a declared derived type D."""
    model = st.model
    sc = st.scn
    if sc is None or sc['i'] >= len(sc['plan']):
        cands = []
        for tn in model.order:
            t = model.types[tn]
            if t['base'] or t['ref'] is None or t['quantum'] is not None \
                    or t['catalogue'] or len(t['items']) != 2:
                continue
            (ta, ea), (tb, eb) = t['items']
            if ea != 1 or abs(eb) != 1:
                continue
            if model.types[ta]['units'] and model.types[tb]['units'] and \
                    model.has_ref(ta) and model.has_ref(tb):
                cands.append((tn, ta, tb, eb))
        if not cands:
            # build what the scenario needs: two base types with reference
            # unit, a scaled unit, a derived type over the two
            st.scn = None
            refs = [x for x in model.types_with_ref()
                    if model.types[x]['base']
                    and not model.types[x]['catalogue']]
            if len(refs) < 2:
                return {'a': 'base_type', 'name': f'T{n}',
                        'ref_sym': f'r{n}', 'quantum': None,
                        'expect': 'accept'}
            ta, tb = refs[r[0] % len(refs)], refs[(r[0] + 1) % len(refs)]
            if len(model.types[ta]['units']) < 2:
                return {'a': 'scaled_unit', 'type': ta, 'sym': f'u{n}',
                        'parent': model.types[ta]['ref'],
                        'k': decl._pick(decl.NUMS, r[1]), 'via': 'rmul',
                        'expect': 'accept'}
            e = 1 if r[2] % 2 else -1
            dim = decl.dim_add(model.types[ta]['dim'],
                               model.types[tb]['dim'], e)
            if decl.dim_key(dim) in model.dims:
                e = -e
                dim = decl.dim_add(model.types[ta]['dim'],
                                   model.types[tb]['dim'], e)
                if decl.dim_key(dim) in model.dims:
                    return None
            return {'a': 'derived_type', 'name': f'D{n}',
                    'items': [[ta, 1], [tb, e]], 'style': r[3] % 3,
                    'ref_sym': f'r{n}', 'auto_ref': False, 'quantum': None,
                    'expect': 'accept', 'dup_dim': False}
        tn, ta, tb, eb = cands[r[0] % len(cands)]
        ua = model.types[ta]['units']
        ub = model.types[tb]['units']
        a = ua[-1] if r[1] % 2 else ua[r[1] % len(ua)]
        b = ub[r[2] % len(ub)]
        mid = [['rej', 'valid'], ['valid', 'rej'],
               ['rej', 'valid', 'rej'],
               # ... with several hundred other operations in between
               # (bounded memos are full by then)
               ['valid', 'burst', 'rej']][r[3] % 4]
        plan = (['op'] if r[4] % 2 or 'burst' in mid else []) + mid + ['op']
        sc = st.scn = {'D': tn, 'a': a, 'b': b, 'e': eb, 'plan': plan,
                       'i': 0}
    what = sc['plan'][sc['i']]
    sc['i'] += 1
    a, b, e, tn = sc['a'], sc['b'], sc['e'], sc['D']
    if a not in model.units or b not in model.units:
        return None
    if what == 'op':
        return {'a': 'operate', 's1': a, 's2': b,
                'op': '*' if e == 1 else '/', 'expect': 'accept'}
    if what == 'burst':
        return {'a': 'burst', 'expect': 'accept'}
    items = [[a, 1], [b, e]]
    if what == 'valid':
        form = r[5] % 3
        if form == 0:
            return {'a': 'derive_unit', 'type': tn, 'units': [a, b],
                    'sym': f'u{n}', 'expect': 'accept', 'reuse': 'scenario'}
        if form == 1:
            return {'a': 'term_unit', 'type': tn, 'sym': f'u{n}',
                    'items': items, 'k': None, 'nums': [], 'spell': 0,
                    'expect': 'accept', 'reuse': 'scenario'}
        # an equivalent unit, declared as multiple of the reference unit
        k = model.term_factor(items)
        if k.numerator.bit_length() > 6000 or \
                k.denominator.bit_length() > 6000:
            return None
        return {'a': 'scaled_unit', 'type': tn, 'sym': f'u{n}',
                'parent': model.types[tn]['ref'],
                'k': {'t': 'frac', 'v': str(k)}, 'via': 'rmul',
                'expect': 'accept', 'reuse': 'scenario'}
    # a rejected declaration that touches the same units
    form = r[6] % 4
    taken = model.uorder[r[7] % len(model.uorder)]
    if form == 0:
        others = [x for x in model.types_with_ref() if x != tn]
        if others:
            return {'a': 'term_unit', 'type': others[r[8] % len(others)],
                    'sym': f'u{n}', 'items': items, 'k': None, 'nums': [],
                    'spell': 0, 'expect': 'reject',
                    'bad': 'wrong_dimension'}
    if form == 1:
        # (the taken symbol: of any unit, or of a unit of this very type
        # that was derived without a name; the rejected call brings a name)
        own = [s for s in model.types[tn]['units']
               if model.units[s]['kind'] == 'derived']
        if own and r[8] % 2:
            taken = own[r[9] % len(own)]
        return {'a': 'derive_unit', 'type': tn, 'units': [a, b],
                'sym': taken, 'name': 'named by a rejected call',
                'expect': 'reject', 'bad': 'dup_symbol'}
    if form == 2:
        return {'a': 'term_unit', 'type': tn, 'sym': taken, 'items': items,
                'k': None, 'nums': [], 'spell': 0, 'expect': 'reject',
                'bad': 'dup_symbol'}
    return {'a': 'derive_unit', 'type': tn, 'units': [a, b, b],
            'sym': f'u{n}', 'expect': 'reject', 'bad': 'count'}


def note_outcome(st: State, act, accepted, info):
    """Book-keeping after the library answered (world A1)."""
    model = st.model
    a = act['a']
    for p in _pairs_of(act):
        if p not in st.term_pairs:
            st.term_pairs.append(p)
    if a == 'conv_update' and not accepted and act.get('valid_prefix'):
        st.last_rejected_specs = (act['conv'], act['validity'],
                                  act['valid_prefix'])
    if a == 'conv_update':
        # an iterator whose update was rejected before it was (supposed to
        # be) read may serve the caller's next update
        st.last_iter = (act['conv'], act['iter'], act['specs']) \
            if act.get('iter') and not accepted and \
            act.get('bad') in ('mixed_kind', 'invalid_validity') else None
    if a == 'operate':
        return
    if accepted:
        if a == 'conv_new':
            st.convs[act['name']] = {'base': act['base'], 'kind': None}
        elif a == 'conv_update':
            c = st.convs[act['conv']]
            if c['kind'] is None:
                c['kind'] = _kind_of(act['validity'])
        elif act.get('noref'):
            model.add_unit(act['sym'], act['type'], None, 'plain')
        elif a != 'evict':
            try:
                decl.apply(model, act, info)
            except Exception:       # noqa
                # the library accepted what the model cannot even express
                # (C15 judges that): this check goes on with the twin
                # comparison, the model just does not know the item
                st.model_gaps += 1
        return
    for s in decl.symbols_mentioned(act):
        if s and s not in model.units and act.get('bad') not in (
                'dup_symbol', 'empty_symbol'):
            st.burnt.append((s, act.get('bad', 'rejected')))
    if a == 'derived_type' and act.get('items'):
        st.last_rejected_type = act['items']
    if a == 'derived_type' and act.get('bad') == 'dup_symbol' and \
            act.get('items'):
        st.rej_dims.append(act['items'])
    if a == 'term_unit' and act.get('bad') == 'wrong_dimension':
        st.rej_terms.append(act)


def _pairs_of(act):
    """The product / quotient of two units that a term definition or a
    derive_unit_from call is made of."""
    out = []
    its = act.get('items') if act['a'] == 'term_unit' else None
    if act['a'] == 'derive_unit' and len(act.get('units', [])) == 2:
        out.append([act['units'][0], act['units'][1], '*'])
        out.append([act['units'][0], act['units'][1], '/'])
    if its and len(its) == 2 and abs(its[0][1]) == 1 and \
            abs(its[1][1]) == 1:
        (s1, e1), (s2, e2) = its
        if e1 == -1:
            (s1, e1), (s2, e2) = (s2, e2), (s1, e1)
        if e1 == 1:
            out.append([s1, s2, '*' if e2 == 1 else '/'])
    elif its and len(its) == 1 and its[0][1] == 2:
        out.append([its[0][0], its[0][0], '*'])
    return out


def _kind_of(v):
    t = v['t']
    if t == 'none':
        return 'none'
    if t == 'int':
        return 'year'
    if t in ('tuple_int', 'tuple_str'):
        return 'month'
    if t == 'date':
        return 'day'
    if t == 'str':
        return {1: 'year', 2: 'month', 3: 'day'}.get(len(v['v'].split('-')))
    return None


# --------------------------------------------------------------------------
# execution of concrete actions (identical code for A2 and B)

class Env16(decl.Env):
    def __init__(self):
        super().__init__()
        self.convs = {}
        self.iters = {}
        self.clocks = {}


def type_key(env, cls):
    """The declared type this class object is (identity, not name): a class
    nobody declared successfully is a ghost."""
    for k, c in env.types.items():
        if c is cls:
            return k
    return 'ghost:' + getattr(cls, '__name__', '?')


def perform(env: Env16, act):
    from decimalfp import Decimal
    from quantity import Quantity, QuantityMeta
    from quantity.money import MoneyConverter
    a = act['a']
    if a == 'operate':
        try:
            u, v = env.units[act['s1']], env.units[act['s2']]
            amnt, unit = u * v if act['op'] == '*' else u / v
            return 'ok', {'value': [
                f"{amnt.numerator}/{amnt.denominator}",
                None if unit is None else unit.symbol,
                None if unit is None else type_key(env, unit.qty_cls)]}
        except Exception as e:      # noqa
            return 'exc', type(e).__name__
    if a == 'set_rounding':
        set_rounding(act['mode'])
        return 'ok', {}
    if a == 'burst':
        us = list(env.units.values())
        done = 0
        for x in us[:90]:
            for y in us[:90]:
                if x.qty_cls is not y.qty_cls and done > 40:
                    continue        # quotients within a type always exist
                for fn in (lambda: x / y, lambda: x * y):
                    try:
                        fn()
                        done += 1
                    except Exception:       # noqa
                        pass
        return 'ok', {'done': done}
    if a == 'subtype_currency':
        from quantity.money import Money
        try:
            sub_money = type(Money)(act['name'], (Money,), {})
            u = sub_money.new_unit(act['sym'], 'token ' + act['sym'])
        except Exception as e:      # noqa
            return 'exc', type(e).__name__
        env.units[act['sym']] = u
        return 'ok', {}
    if a == 'bad_term_type':
        from quantity.term import Term
        u = env.units[act['unit']]
        bad = Term([(2, 1), (u.qty_cls, 1)]) if act['with_number'] \
            else Term([(u, 1)])
        try:
            QuantityMeta(act['name'], (Quantity,), {}, define_as=bad,
                         ref_unit_symbol=act['ref_sym'])
        except Exception as e:      # noqa
            return 'exc', type(e).__name__
        return 'ok', {}
    if a == 'money_subtype':
        from quantity.money import Money
        try:
            type(Money)(act['name'], (Money,), env.shared_ns,
                        ref_unit_symbol=act['sym'])
        except Exception as e:      # noqa
            return 'exc', type(e).__name__
        return 'ok', {}
    if a == 'conv_new':
        if len(act['name']) % 2:
            # with a callable of the caller's: a business calendar that
            # counts how often it is asked
            class Calendar:
                calls = 0

                def __call__(self):
                    self.calls += 1
                    return dt.date(2024, 2, 29)
            clk = env.clocks[act['name']] = Calendar()
            env.convs[act['name']] = MoneyConverter(
                env.units[act['base']], get_dflt_effective_date=clk)
        else:
            env.convs[act['name']] = MoneyConverter(env.units[act['base']])
        return 'ok', {}
    if a == 'conv_update':
        conv = env.convs[act['conv']]
        v = act['validity']
        t, x = v['t'], v.get('v')
        validity = (None if t == 'none' else tuple(x)
                    if t in ('tuple_int', 'tuple_str')
                    else dt.date.fromisoformat(x) if t == 'date' else x)
        specs = []
        for cur, amt, um in act['specs']:
            c = (env.units[cur['sym']] if cur['as'] == 'obj' else
                 cur['sym'] if cur['as'] == 'str' else int(cur['sym']))
            at, av = amt['t'], amt['v']
            am = (Decimal(av) if at == 'dec' else Fraction(av)
                  if at == 'frac' else int(av) if at == 'int' else av)
            u = Decimal(um['v']) if um['t'] == 'dec' else int(um['v'])
            specs.append((c, am, u))
        form = (len(specs) + len(act['conv'])) % 3
        container = [specs, iter(specs), (s for s in specs)][form]
        if act.get('feed_error_at') is not None:
            def feed(specs=specs, k=act['feed_error_at']):
                for j, sp in enumerate(specs):
                    if j == k:
                        raise LookupError('feed cannot be read any further')
                    yield sp
            container = feed()
        elif act.get('iter'):
            if act['iter'] not in env.iters:
                env.iters[act['iter']] = iter(specs)
            container = env.iters[act['iter']]
        try:
            if act.get('in_block'):
                with conv:
                    conv.update(validity, container)
            else:
                conv.update(validity, container)
        except Exception as e:      # noqa
            return 'exc', type(e).__name__
        return 'ok', {}
    if act.get('unknown_kw') or act.get('style') == 3:
        try:
            if act.get('unknown_kw'):
                QuantityMeta(act['name'], (Quantity,), {},
                             ref_unit_symbol=act['ref_sym'], colour='red')
            else:
                QuantityMeta(act['name'], (Quantity,), {},
                             define_as=Fraction(1, 3),
                             ref_unit_symbol=act['ref_sym'])
        except Exception as e:      # noqa
            return 'exc', type(e).__name__
        return 'ok', {}
    return decl.perform(env, act)


def observe(env: Env16, symbols, typenames, pairs=(), final=True):
    """Everything a user can see, as pure data.  Observation never raises:
    an exception is an observed value.

    Evaluating an operation is not read-only (it fills caches), and a probe
    evaluated after every step would pre-load them in both worlds alike and
    hide what a rejected step left behind; operations are therefore only
    evaluated in the final observation of a history."""
    try:
        return _observe(env, symbols, typenames, pairs, final)
    except Exception as e:      # noqa
        return {'observation': 'exc:' + type(e).__name__}


def _observe(env: Env16, symbols, typenames, pairs=(), final=True):
    # (the operation memo is deliberately left alone: a rejected step that
    # empties or fills it has left a trace)
    from quantity import Quantity, Unit
    from quantity.money import Money, ExchangeRate
    obs = {}
    live = []
    try:
        import decimalfp
        obs['global:rounding_mode'] = [
            str(decimalfp.get_dflt_rounding_mode()),
                                str(decimalfp.Decimal('0.125', 2)),
                                str(decimalfp.Decimal('-2.5', 0))]
    except Exception as e:      # noqa
        obs['global:rounding_mode'] = 'exc:' + type(e).__name__

    def tkey(cls):
        return type_key(env, cls)

    for s in symbols:
        try:
            u = Unit(s)
            obs['Unit:' + s] = [tkey(u.qty_cls),
                                env.units.get(s) is u or s not in env.units]
            live.append(u)
        except Exception as e:      # noqa
            obs['Unit:' + s] = 'exc:' + type(e).__name__
        try:
            obs['parse:' + s] = tkey(type(Quantity('1 ' + s)))
        except Exception as e:      # noqa
            obs['parse:' + s] = 'exc:' + type(e).__name__
    for tn in ['Quantity'] + typenames:
        cls = Quantity if tn == 'Quantity' else env.types.get(tn)
        if cls is None:
            obs['type:' + tn] = 'absent'
            continue
        try:
            obs['type:' + tn] = [sorted(u.symbol for u in cls.units()),
                                 len(cls)]
        except Exception as e:      # noqa
            obs['type:' + tn] = 'exc:' + type(e).__name__
        obs['convs:' + tn] = len(list(cls.registered_converters()))
    # attributes of the existing units (a rejected declaration must not
    # change what is already there)
    try:
        obs['names'] = [[u.symbol, u.name] for u in live]
    except Exception as e:      # noqa
        obs['names'] = 'exc:' + type(e).__name__
    for u in live[:10]:
        try:
            q = u.quantum
            obs['attrs:' + u.symbol] = [
                u.name, str(u.definition), str(u.normalized_definition),
                None if q is None else f"{q.numerator}/{q.denominator}",
                u.is_ref_unit(), u.is_base_unit(),
                hash(u) == hash(Unit(u.symbol)), u == Unit(u.symbol)]
        except Exception as e:      # noqa
            obs['attrs:' + u.symbol] = 'exc:' + type(e).__name__
    # units of one type compared with each other (scale-less units are
    # equal only to themselves, comparing them by size raises)
    for u in live[:8]:
        for v in live[:8]:
            if u is v or u.qty_cls is not v.qty_cls:
                continue
            rec = []
            for fn in (lambda: u == v, lambda: (1 * u) == (1 * v),
                       lambda: u < v):
                try:
                    rec.append(bool(fn()))
                except Exception as e:      # noqa
                    rec.append('exc:' + type(e).__name__)
            obs[f'cmp:{u.symbol}:{v.symbol}'] = rec
    # results of operations on what exists
    if not final:
        live, pairs = [], ()
    for u in live[:5]:
        for v in live[:5]:
            for opn, fn in (('*', lambda: u * v), ('/', lambda: u / v)):
                try:
                    amnt, unit = fn()
                    obs[f'{u.symbol}{opn}{v.symbol}'] = [
                        f"{amnt.numerator}/{amnt.denominator}",
                        None if unit is None else unit.symbol,
                        None if unit is None else tkey(unit.qty_cls)]
                except Exception as e:      # noqa
                    obs[f'{u.symbol}{opn}{v.symbol}'] = \
                        'exc:' + type(e).__name__
    # ... and the products / quotients that term definitions anywhere in
    # the history (also rejected ones) are made of
    for s1, s2, opn in pairs:
        try:
            u, v = Unit(s1), Unit(s2)
            amnt, unit = u * v if opn == '*' else u / v
            obs[f'{s1}{opn}{s2}'] = [
                f"{amnt.numerator}/{amnt.denominator}",
                None if unit is None else unit.symbol,
                None if unit is None else tkey(unit.qty_cls)]
        except Exception as e:      # noqa
            obs[f'{s1}{opn}{s2}'] = 'exc:' + type(e).__name__
    curs = Money.units()
    for c in curs:
        try:
            obs['currency:' + c.symbol] = [
                str(c.smallest_fraction), str(c.quantum), c.name,
                str(Money('1.23456', c).amount)]
        except Exception as e:      # noqa
            obs['currency:' + c.symbol] = 'exc:' + type(e).__name__
    dates = [dt.date.fromisoformat(d) for d in PROBE_DATES]
    for cn in sorted(env.convs):
        conv = env.convs[cn]
        vec = []
        for d in dates:
            for a in curs:
                for b in curs:
                    if a is b:
                        continue
                    try:
                        r = conv.get_rate(a, b, d)
                        vec.append(None if r is None else
                                   [a.symbol, b.symbol,
                                    f"{r.rate.numerator}/"
                                    f"{r.rate.denominator}"])
                    except Exception as e:      # noqa
                        vec.append('exc:' + type(e).__name__)
        obs['conv:' + cn] = vec
        if cn in env.clocks:
            # nobody asked for a default date: the caller's calendar was
            # not consulted
            obs['clock:' + cn] = env.clocks[cn].calls
    return obs


ROUNDINGS = ['ROUND_HALF_EVEN', 'ROUND_HALF_UP', 'ROUND_HALF_DOWN',
             'ROUND_DOWN', 'ROUND_UP', 'ROUND_CEILING', 'ROUND_FLOOR',
             'ROUND_05UP']


def set_rounding(name):
    """The process-wide default rounding mode of decimalfp is part of the
    state a user sees (every quantized amount is rounded with it): a swarm
    knob per run, and observed."""
    if name:
        import decimalfp
        decimalfp.set_dflt_rounding_mode(getattr(decimalfp.ROUNDING, name))


def set_warnings(as_errors):
    if as_errors:
        import warnings
        warnings.simplefilter('error')


HANG_S = 3.0


def perform_step(env, act):
    """perform(), from a fresh thread if the step says so.  A step that
    does not come back (no progress of the thread for HANG_S and again for
    HANG_S / 2, its frame unchanged) is reported as 'hang'."""
    if not act.get('thread'):
        return perform(env, act)
    import sys
    import threading
    box = []

    def work():
        try:
            box.append(perform(env, act))
        except BaseException as e:      # noqa
            box.append(('exc', type(e).__name__))

    t = threading.Thread(target=work, daemon=True)
    t.start()
    t.join(HANG_S)
    if t.is_alive():
        def where():
            f = sys._current_frames().get(t.ident)
            return None if f is None else (id(f), f.f_lasti)
        w0 = where()
        t.join(HANG_S / 2)
        if t.is_alive() and where() == w0:
            return 'exc', 'hang'
        t.join(4 * HANG_S)
        if t.is_alive():
            return 'exc', 'hang'
    return box[0]


def run_a1(h):
    """World A1: resolve intents, find out what the library rejects."""
    set_rounding(h['cfg'].get('rounding'))
    set_warnings(h['cfg'].get('warnings_as_errors'))
    st = State()
    env = Env16()
    if h['cfg']['variant'] == 'predefined':
        decl.seed_catalogue(st.model, env)
    actions = []
    for op in h['ops']:
        act = resolve(st, op)
        if act is None:
            continue
        m = h['cfg'].get('threads')
        if m and sum(x for x in op[1:] if isinstance(x, int)) % m == 0:
            act['thread'] = True
        out, info = perform_step(env, act)
        accepted = out == 'ok'
        note_outcome(st, act, accepted, info)
        act = dict(act, raised=not accepted,
                   outcome=out if accepted else info)
        if accepted and isinstance(info, dict):
            made = info.get('sym') or info.get('ref_sym')
            if made:
                act['made_sym'] = made
        elif not accepted and act['a'] == 'derived_type' and \
                act.get('auto_ref') and act.get('items'):
            # the symbol the library would have generated for the reference
            # unit of the rejected type: it must stay unknown, too
            try:
                from quantity.term import Term
                define_as = decl.build_clsdef(env, act['items'],
                                              act['style'])
                would = str(Term([(c.ref_unit, e) for c, e in define_as]))
                if would and would not in st.model.units:
                    act['made_sym'] = would
            except Exception:       # noqa: only widens the observation
                pass
        actions.append(act)
        if info == 'hang':
            break       # this world cannot go on
        if accepted and act.get('expect') == 'reject':
            # the library accepted what the model holds for invalid (C15
            # judges that): from here on the model does not describe the
            # world any more, the history ends here
            break
    return actions


def run_concrete(arg):
    """Worlds A2 and B: execute concrete actions, observe after each."""
    actions, symbols, typenames, variant, pairs, rmode = arg
    set_rounding(rmode[0] if isinstance(rmode, list) else rmode)
    set_warnings(isinstance(rmode, list) and rmode[1])
    env = Env16()
    if variant == 'predefined':
        decl.seed_catalogue(decl.RefDir(), env)
    out = [['init', observe(env, symbols, typenames, pairs, final=False)]]
    for i, act in enumerate(actions):
        res, info = perform_step(env, act)
        if info == 'hang':
            while len(out) <= len(actions):
                out.append(['hang', {'observation': 'hang'}, None])
            break
        out.append([res if res == 'ok' else info,
                    observe(env, symbols, typenames, pairs,
                            final=i == len(actions) - 1),
                    info.get('value') if isinstance(info, dict) else None])
    return out


def judge(h):
    kf = core.KnownFindings()
    actions = core.run_in_child(run_a1, h)
    symbols, typenames = [], []
    for act in actions:
        for s in decl.symbols_mentioned(act):
            if s and s not in symbols:
                symbols.append(s)
        if act['a'] in ('base_type', 'derived_type') and \
                act['name'] not in typenames:
            typenames.append(act['name'])
    typenames = ['Money'] + typenames
    variant = h['cfg']['variant']
    for act in actions:
        if act.get('made_sym') and act['made_sym'] not in symbols:
            symbols.append(act['made_sym'])
    plain = [{k: v for k, v in a.items()
              if k not in ('raised', 'outcome', 'made_sym')}
             for a in actions]
    # world B: the history without the steps that were *meant* to be (or
    # may legitimately be) rejected and were rejected.  A step the
    # generator knows to be valid stays in B even if it raised in A: if it
    # only fails because of an earlier rejected step, the twin shows it.
    def deleted(a):
        return a['raised'] and a['expect'] != 'accept'
    kept = [a for a, full in zip(plain, actions) if not deleted(full)]
    pairs = []
    for act in actions:
        for p in _pairs_of(act):
            if p not in pairs:
                pairs.append(p)
    pairs = pairs[:12]
    rmode = [h['cfg'].get('rounding'),
             bool(h['cfg'].get('warnings_as_errors'))]
    obs_a = core.run_in_child(run_concrete,
                              (plain, symbols, typenames, variant, pairs,
                               rmode))
    obs_b = core.run_in_child(run_concrete,
                              (kept, symbols, typenames, variant, pairs,
                               rmode))
    faults, probes, known = {}, {}, {}
    violations = []
    n_thr = sum(1 for a in actions if a.get('thread'))
    if n_thr:
        probes['step_made_from_another_thread'] = n_thr

    def bump(d, k, n=1):
        d[k] = d.get(k, 0) + n

    log = []

    def compare(acts, obs_x, obs_y, is_deleted, pair, count):
        """World X runs `acts`, world Y runs them without the steps for
        which is_deleted() holds; after every step both must look alike."""
        j = 0                   # index into obs_y (0 = initial)
        rejected_seen = 0
        for i, act in enumerate(acts):
            ox = obs_x[i + 1]
            if is_deleted(act):
                rejected_seen += 1
                if count:
                    bump(faults, 'rejected:' + str(act.get('bad') or
                                                   'followed:' + act['a']))
                    if act.get('bad_after_valid'):
                        bump(probes, 'rejected_update_after_valid_specs')
                else:
                    bump(faults, 'rejected:refused_valid:' + act['a'])
            else:
                j += 1
                if count:
                    if act['raised']:
                        bump(probes, 'valid_step_refused_in_A')
                    else:
                        if act.get('reuse'):
                            bump(probes, 'valid_reuse_of_rejected_' +
                                 act['reuse'])
                        if rejected_seen:
                            bump(probes, 'accepted_step_after_a_rejection')
            oy = obs_y[j]
            if count:
                log.append([i, act['a'], ox[0]])
            if violations:
                continue
            show = {kk: vv for kk, vv in act.items()
                    if kk not in ('raised', 'outcome')}
            # outcome of the step itself (kept steps only), and for an
            # operation its result
            if not is_deleted(act) and oy[0] == ox[0] and len(ox) > 2 and \
                    ox[2] != oy[2]:
                facts = {'class': 'later_operation_result', 'action': show,
                         'with_rejected_steps': ox[2], 'without': oy[2],
                         'worlds': pair}
                fid = kf.match(PROP, 'twin', facts)
                if fid:
                    bump(known, fid)
                else:
                    violations.append(dict(facts, oracle='twin', step=i))
                    continue
            if not is_deleted(act) and oy[0] != ox[0]:
                facts = {'class': 'later_step_outcome', 'action': show,
                         'with_rejected_steps': ox[0], 'without': oy[0],
                         'worlds': pair}
                fid = kf.match(PROP, 'twin', facts)
                if fid:
                    bump(known, fid)
                else:
                    violations.append(dict(facts, oracle='twin', step=i))
                    continue
            diff = [k for k in ox[1] if ox[1][k] != oy[1].get(k)]
            if diff:
                k = diff[0]
                cls = k.split(':')[0] if ':' in k else 'operation'
                culprit = next((a for a in reversed(acts[:i + 1])
                                if is_deleted(a)), None)
                facts = {'class': 'trace_' + cls, 'key': k,
                         'with_rejected_steps': ox[1][k],
                         'without': oy[1].get(k),
                         'n_differences': len(diff), 'worlds': pair,
                         'last_rejected': None if culprit is None else
                         {kk: vv for kk, vv in culprit.items()
                          if kk in ('a', 'bad', 'dup_dim', 'name', 'sym',
                                    'ref_sym', 'code', 'outcome')}}
                fid = kf.match(PROP, 'twin', facts)
                if fid:
                    bump(known, fid)
                else:
                    violations.append(dict(facts, oracle='twin', step=i))

    for i, act in enumerate(actions):
        if (obs_a[i + 1][0] != 'ok') != act['raised']:
            raise core.HarnessError(
                f"world A2 diverged from A1 at step {i}: {obs_a[i + 1][0]}")
    compare(actions, obs_a, obs_b, deleted, 'A/B', True)
    # world C: declarations the generator held for valid, that stayed in B
    # and that the library refused there as well, are rejected declarations
    # too: without them (world C) everything must look the same
    kept_full = [dict(a, raised=obs_b[jj + 1][0] != 'ok')
                 for jj, a in enumerate(kept)]

    def refused(a):
        return a['raised'] and a['a'] not in ('operate', 'evict')
    n_worlds = 3
    if not violations and any(refused(a) for a in kept_full):
        kept_c = [a for a, full in zip(kept, kept_full) if not refused(full)]
        obs_c = core.run_in_child(run_concrete,
                                  (kept_c, symbols, typenames, variant,
                                   pairs, rmode))
        n_worlds = 4
        compare(kept_full, obs_b, obs_c, refused, 'B/C', False)
    n_rej = sum(1 for a in actions if deleted(a))
    return {'digest': core.digest([log, core.digest(obs_a),
                                   core.digest(obs_b)]),
            'violations': violations, 'known': known, 'faults': faults,
            'probes': probes, 'ops': len(actions), 'worlds': n_worlds,
            'hist_digest': core.digest([h['cfg'], h['ops']]),
            'nontrivial': bool(n_rej >= 1 and probes.get(
                'accepted_step_after_a_rejection', 0) >= 1),
            'reach': {'fault_sets': [core.digest(sorted(faults))],
                      'rejected_positions': [f"{i}/{len(actions)}"
                                             for i, a in enumerate(actions)
                                             if deleted(a)][:12]}}


def run_one(seed, run, tier):
    h = gen(seed, run, tier)
    res = judge(h)
    res['sample'] = h if run < 3 else None
    return res


RULE = ("run i draws, from random.Random(splitmix64(VERIF_SEED,'C16',i)), a "
        "world variant and <=40 intents over the declaration vocabulary of "
        "C15 plus {currency with invalid parameters, type with invalid "
        "keywords, converter creation, valid converter update, rejected "
        "converter update (invalid validity, mixed kind, invalid rate spec "
        "at position k of n), valid declaration re-using the symbol or "
        "dimension of an earlier rejected one, memo eviction}. World A1 "
        "resolves them and learns which steps the library rejects; worlds "
        "A2 (all steps) and B (rejected steps deleted) run identical code "
        "and are compared after every step on: Unit(s) and Quantity('1 s') "
        "for every symbol mentioned anywhere in the history, units()/len of "
        "every type incl. Quantity and Money, converter counts, results of "
        "u*v and u/v for the first five live units, a get_rate sweep of "
        "every converter, and the outcome of every kept step. Distinct = "
        "digest of (configuration, intents); non-trivial = >=1 step "
        "rejected and >=1 later step accepted.")
ASSUMPTIONS = [
    "python without -O; steps made from other threads run one at a time "
    "(the main thread waits); a step that does not return within 4.5 s "
    "without its thread moving is recorded as outcome 'hang'",
    "differential oracle: a defect that is identical with and without the "
    "rejected steps is invisible here (that is C15's and C11's business)",
    "interrupts or allocation failures between two directory writes of one "
    "declaration are not injected: the statement is about declarations the "
    "library rejects",
    "decimalfp pure-Python implementation (see DESIGN.md 2.11)",
]
REAL = ["quantity, quantity.money (directories, type registry, "
        "MoneyConverter) from /repo/src", "quantity.predefined (variant)",
        "decimalfp"]
STUBS = ["none; explicit dates only, so no clock is read"]
