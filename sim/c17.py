"""C17 - results do not depend on evaluation history.

Restart-and-compare.  A *program* is a set of valid declarations with its
dependency order plus a set of probes (products, quotients, powers of units
and quantities).  From one program K histories are derived: different
topological orders of the declarations, every probe evaluated at several
points (before its result type exists, right after, later, twice in a row),
other probes in between, memo evictions and rejected declarations as noise.
Every history runs in its own fresh world; the library is compared with
itself.  RefDir is used only for the precondition "the result type (for
types without reference unit: the result unit) is declared at this point".
"""
from __future__ import annotations

import os
import random
from fractions import Fraction

from sim import core, decl

PROP = 'C17'
VARIANTS = ['bare', 'predefined']
VARIANT_WORKER_SHARE = {'bare': 0.75, 'predefined': 0.25}
_CAT = None
MAX_DECL = 22
MAX_PROBES = 12

GEN_INTENTS = {
    'base_type': 3, 'derived_type': 6, 'scaled_unit': 6, 'term_unit': 2,
    'alias_unit': 2, 'price_type': 1,
    'derive_unit': 3, 'plain_unit': 1, 'currency_reg': 2,
}
NOISE_INTENTS = ['dup_dimension', 'wrong_dim_term', 'dup_symbol',
                 'empty_symbol', 'wrong_type_scaled', 'derive_bad']


def variant_of(seed, run):
    rng = core.rng_for(seed, PROP + ':variant', run)
    return 'predefined' if rng.random() < 0.2 else 'bare'


def catalogue():
    """The predefined catalogue as pure data (read once, in a child that
    imports quantity.predefined; this process stays a bare template)."""
    global _CAT
    if _CAT is None:
        _CAT = core.run_in_child(decl.describe_catalogue, None)
    return _CAT


def new_model(variant):
    model = decl.RefDir()
    if variant == 'predefined':
        decl.seed_from(model, catalogue())
    return model


def _creates(act):
    """names of types / symbols of units an accepted action creates"""
    out = []
    a = act['a']
    if a in ('base_type', 'derived_type'):
        out.append('T:' + act['name'])
        if act.get('ref_sym'):
            out.append('U:' + act['ref_sym'])
    elif a in ('scaled_unit', 'term_unit', 'derive_unit', 'plain_unit',
               'currency_new'):
        out.append('U:' + act['sym'])
    elif a == 'currency_reg':
        out.append('U:' + act['code'])
    elif a == 'table_conv':
        out.append(f"C:{act['type']}:{act.get('seq', 1)}")
    return out


def _needs(act):
    out = []
    a = act['a']
    if a == 'derived_type':
        out += ['T:' + tn for tn, _ in act['items']]
    if 'type' in act:
        out.append('T:' + act['type'])
    if a == 'table_conv':
        if act.get('seq', 1) > 1:
            # converters are consulted most recent first: their order is
            # part of the program, not of the history
            out.append(f"C:{act['type']}:{act['seq'] - 1}")
        for u1, u2, _f, _o in act['table']:
            out += ['U:' + u1, 'U:' + u2]
    if a == 'scaled_unit':
        out.append('U:' + act['parent'])
    if a == 'term_unit':
        out += ['U:' + s for s, _ in act['items']]
    if a == 'derive_unit':
        out += ['U:' + s for s in act['units']]
    return [n for n in out if n != 'T:Money']


def gen(seed, run, tier='quick'):
    rng = core.rng_for(seed, PROP, run)
    variant = variant_of(seed, run)
    model = new_model(variant)
    n_given = len(model.uorder)
    decls, noise = [], []
    deep = tier == 'thorough'
    n_decl = rng.randrange(5, (36 if deep else MAX_DECL) + 1)
    kinds = list(GEN_INTENTS)
    weights = [GEN_INTENTS[k] * rng.choice([1, 1, 2]) for k in kinds]
    noise_p = rng.choice([0, 0.1, 0.25])
    tries = 0
    for _ in range(rng.choice([2, 2, 3]) if variant == 'bare'
                   else rng.choice([0, 1])):
        act = decl.resolve(model, ['base_type', 1] +
                           [rng.randrange(1 << 16) for _ in range(3)])
        decl.apply(model, act)
        decls.append(act)
    while len(decls) < n_decl and tries < 200:
        tries += 1
        if rng.random() < noise_p:
            op = [rng.choice(NOISE_INTENTS)] + \
                [rng.randrange(1 << 16) for _ in range(12)]
            act = decl.resolve(model, op)
            if act is not None and act['expect'] == 'reject':
                act['after'] = len(decls)
                noise.append(act)
            continue
        k = rng.choices(kinds, weights)[0]
        op = [k] + [rng.randrange(1 << 16) for _ in range(12)]
        act = decl.resolve(model, op)
        if act is None or act['expect'] == 'reject':
            continue
        n = model.counter
        if act['a'] == 'derived_type' and act.get('auto_ref'):
            act.update(ref_sym=f'a{n}', auto_ref=False)
        if act['a'] == 'derive_unit' and act['sym'] is None:
            act['sym'] = f'v{n}'
        act['expect'] = 'accept'
        if act['a'] == 'currency_reg' and act['code'] in model.units:
            continue
        decl.apply(model, act)
        decls.append(act)
        if act['a'] == 'derive_unit' and rng.random() < 0.3 and \
                model.has_ref(act['type']) and \
                model.types[act['type']]['quantum'] is None:
            # the same definition once more, declared through a term
            t = model.types[act['type']]
            n = model.fresh()
            alias = {'a': 'term_unit', 'type': act['type'], 'sym': f'u{n}',
                     'items': [[u, e] for u, (_, e) in
                               zip(act['units'], t['items'])],
                     'k': None, 'nums': [], 'spell': 0, 'expect': 'accept'}
            decl.apply(model, alias)
            decls.append(alias)
        if act['a'] == 'scaled_unit' and rng.random() < 0.25 and \
                model.types[act['type']]['quantum'] is None:
            # an alias: another unit with the same definition ("first
            # registered wins" then depends on the declaration order)
            n = model.fresh()
            alias = dict(act, sym=f'u{n}')
            decl.apply(model, alias)
            decls.append(alias)
    if rng.random() < 0.5:
        # money: currencies, a price type and a unit for it
        for op in (['currency_reg'], ['currency_reg'], ['price_type'],
                   ['derive_unit'], ['derive_unit']):
            act = decl.resolve(model, op + [rng.randrange(1 << 16)
                                            for _ in range(12)])
            if op[0] == 'derive_unit' and act is not None:
                # the newest derived type without reference unit
                price = [t for t in model.order
                         if model.types[t]['items'] and
                         model.types[t]['ref'] is None]
                if not price:
                    continue
                act = decl.resolve(model, ['derive_unit',
                                           [t for t in model.order
                                            if not model.types[t]['base']]
                                           .index(price[-1])] +
                                   [rng.randrange(1 << 16)
                                    for _ in range(11)])
            if act is None or act['expect'] == 'reject':
                continue
            if act['a'] == 'currency_reg' and act['code'] in model.units:
                continue
            if act['a'] == 'derive_unit' and act['sym'] is None:
                act['sym'] = f'v{model.counter}'
            act['expect'] = 'accept'
            decl.apply(model, act)
            decls.append(act)
    scenario_probes = []
    if rng.random() < 0.2:
        # scenario: a type without reference unit whose units are related
        # by a table converter given in ONE direction only, with plain int
        # factor and offset; quotients of two of its quantities are plain
        # numbers and must not depend on which conversions ran before
        n = model.fresh()
        tn = f'T{n}'
        act = {'a': 'base_type', 'name': tn, 'ref_sym': None,
               'quantum': None, 'expect': 'accept'}
        decl.apply(model, act)
        decls.append(act)
        us = []
        for _ in range(rng.choice([2, 3])):
            n = model.fresh()
            act = {'a': 'plain_unit', 'type': tn, 'sym': f'u{n}',
                   'expect': 'accept'}
            decl.apply(model, act)
            decls.append(act)
            us.append(f'u{n}')
        table = [[us[0], us[1], rng.choice([3, 7, 9, 2]),
                  rng.choice([32, 5, 0, -4, 1])]]
        if len(us) > 2 and rng.random() < 0.5:
            table.append([us[1], us[2], rng.choice([3, 5]),
                          rng.choice([10, 1])])
        act = {'a': 'table_conv', 'type': tn, 'table': table,
               'expect': 'accept'}
        decl.apply(model, act)
        decls.append(act)
        if rng.random() < 0.5:
            # a second converter for the same pairs, registered later: from
            # then on it answers
            act = {'a': 'table_conv', 'type': tn, 'seq': 2,
                   'table': [[u1, u2, f + rng.choice([1, 4]), o + 2]
                             for u1, u2, f, o in table],
                   'expect': 'accept'}
            decl.apply(model, act)
            decls.append(act)
        for u1, u2, _f, _o in table:
            scenario_probes += [('qq/', u1, u2), ('qq/', u2, u1),
                                ('qu/', u1, u2), ('qq/', u1, u2),
                                ('uu/', u1, u2)]
    if rng.random() < 0.2:
        # scenario: a *quantized* type with a unit whose scale is off the
        # quantum grid, and an operation that is delivered either in that
        # unit (declared first) or in the reference unit (fall-back):
        # rounding must not depend on which one it is
        def add(act):
            decl.apply(model, act)
            decls.append(act)
        n = model.fresh()
        qn, qref = f'T{n}', f'r{n}'
        add({'a': 'base_type', 'name': qn, 'ref_sym': qref,
             'quantum': rng.choice(['1/8', '1/100', '1/2', '1/4']),
             'expect': 'accept'})
        n = model.fresh()
        off = rng.choice([{'t': 'dec', 'v': '4.9'}, {'t': 'frac', 'v': '1/3'},
                          {'t': 'dec', 'v': '2.54'}, {'t': 'frac',
                                                      'v': '22/7'},
                          {'t': 'dec', 'v': '0.3048'}])
        uq = f'u{n}'
        add({'a': 'term_unit', 'type': qn, 'sym': uq, 'items': [[qref, 1]],
             'k': None, 'nums': [[off, 1]], 'spell': rng.randrange(4),
             'expect': 'accept'})
        others = [t for t in model.types_with_ref()
                  if t != qn and model.types[t]['base']
                  and not model.types[t]['catalogue']]
        if others:
            tn = rng.choice(others)
            tu = rng.choice(model.types[tn]['units'])
            e = rng.choice([1, -1])
            items = [[qn, 1], [tn, e]]
            dim = decl.dim_add(model.types[qn]['dim'],
                               model.types[tn]['dim'], e)
            if decl.dim_key(dim) not in model.dims:
                n = model.fresh()
                rn = f'D{n}'
                add({'a': 'derived_type', 'name': rn, 'items': items,
                     'style': rng.randrange(3), 'ref_sym': f'a{n}',
                     'auto_ref': False, 'quantum': None,
                     'expect': 'accept', 'dup_dim': False})
                n = model.fresh()
                w = f'v{n}'
                if rng.random() < 0.5:
                    add({'a': 'derive_unit', 'type': rn, 'units': [uq, tu],
                         'sym': w, 'expect': 'accept'})
                else:
                    # the same scale reached independently of uq (so the
                    # operation can be evaluated before uq is declared)
                    tf = model.units[tu]['factor']
                    k = decl.num_value(off) * tf ** e
                    add({'a': 'scaled_unit', 'type': rn, 'sym': w,
                         'parent': f'a{n - 1}',
                         'k': {'t': 'frac', 'v': str(k)}, 'via': 'rmul',
                         'expect': 'accept'})
                # w = uq * tu**e  =>  w / tu**e is exactly uq
                scenario_probes = [(rng.choice(['qq', 'qu', 'uq']) +
                                    ('/' if e == 1 else '*'), w, tu)
                                   for _ in range(2)]
    if rng.random() < 0.15:
        # scenario: a unit of a type WITHOUT reference unit whose definition
        # contains the power of a scaled unit (km**2 / n), reached through
        # another expansion (km * (km/n)); the classes involved are
        # declared in different orders in the different worlds, and the
        # normal form of a term must not depend on that
        def add(act):
            decl.apply(model, act)
            decls.append(act)
        n = model.fresh()
        ln, lref = f'T{n}', f'r{n}'
        add({'a': 'base_type', 'name': ln, 'ref_sym': lref,
             'quantum': None, 'expect': 'accept'})
        n = model.fresh()
        km = f'u{n}'
        add({'a': 'scaled_unit', 'type': ln, 'sym': km, 'parent': lref,
             'k': rng.choice([{'t': 'int', 'v': '1000'},
                              {'t': 'dec', 'v': '0.001'},
                              {'t': 'frac', 'v': '1/3'},
                              {'t': 'prefix', 'v': 'KILO'}]),
             'via': 'rmul', 'expect': 'accept'})
        n = model.fresh()
        nn = f'T{n}'
        add({'a': 'base_type', 'name': nn, 'ref_sym': None,
             'quantum': None, 'expect': 'accept'})
        n = model.fresh()
        nu = f'u{n}'
        add({'a': 'plain_unit', 'type': nn, 'sym': nu, 'expect': 'accept'})
        e = rng.choice([2, 2, 3])
        n = model.fresh()
        an = f'D{n}'
        add({'a': 'derived_type', 'name': an, 'items': [[ln, e]],
             'style': rng.randrange(3), 'ref_sym': f'a{n}',
             'auto_ref': False, 'quantum': None, 'expect': 'accept',
             'dup_dim': False})
        n = model.fresh()
        kme = f'v{n}'
        add({'a': 'derive_unit', 'type': an, 'units': [km], 'sym': kme,
             'expect': 'accept'})
        s = rng.choice([1, -1])
        n = model.fresh()
        pn = f'D{n}'
        add({'a': 'derived_type', 'name': pn, 'items': [[an, 1], [nn, s]],
             'style': rng.randrange(3), 'ref_sym': None, 'auto_ref': False,
             'quantum': None, 'expect': 'accept', 'dup_dim': False})
        n = model.fresh()
        pu = f'v{n}'
        add({'a': 'derive_unit', 'type': pn, 'units': [kme, nu],
             'sym': pu, 'expect': 'accept'})
        n = model.fresh()
        xn = f'D{n}'
        add({'a': 'derived_type', 'name': xn,
             'items': [[ln, e - 1], [nn, s]], 'style': rng.randrange(3),
             'ref_sym': None, 'auto_ref': False, 'quantum': None,
             'expect': 'accept', 'dup_dim': False})
        n = model.fresh()
        xu = f'v{n}'
        add({'a': 'derive_unit', 'type': xn, 'units': [km, nu], 'sym': xu,
             'expect': 'accept'})
        scenario_probes += [('uu*', km, xu), ('uu*', xu, km),
                            ('qq*', km, xu)]
    if rng.random() < 0.15:
        # scenario: a derived type without reference unit that has units
        # for MULTIPLES only (x/g and x/t, no x/kg): the quotient of the
        # bare units has no unit to be delivered in - whatever the library
        # answers, it must not depend on which multiple was declared first
        def add(act):
            decl.apply(model, act)
            decls.append(act)
        n = model.fresh()
        ln, lref = f'T{n}', f'r{n}'
        add({'a': 'base_type', 'name': ln, 'ref_sym': lref,
             'quantum': None, 'expect': 'accept'})
        ks = rng.sample([{'t': 'int', 'v': '1000'}, {'t': 'dec', 'v': '0.001'},
                         {'t': 'frac', 'v': '1/3'}, {'t': 'int', 'v': '60'},
                         {'t': 'prefix', 'v': 'KILO'}], 2)
        gs = []
        for k_ in ks:
            n = model.fresh()
            gs.append(f'u{n}')
            add({'a': 'scaled_unit', 'type': ln, 'sym': gs[-1],
                 'parent': lref, 'k': k_, 'via': 'rmul', 'expect': 'accept'})
        n = model.fresh()
        nn = f'T{n}'
        add({'a': 'base_type', 'name': nn, 'ref_sym': None,
             'quantum': None, 'expect': 'accept'})
        n = model.fresh()
        nu = f'u{n}'
        add({'a': 'plain_unit', 'type': nn, 'sym': nu, 'expect': 'accept'})
        s_ = rng.choice([-1, -1, 1])
        n = model.fresh()
        pn = f'D{n}'
        add({'a': 'derived_type', 'name': pn, 'items': [[nn, 1], [ln, s_]],
             'style': rng.randrange(3), 'ref_sym': None, 'auto_ref': False,
             'quantum': None, 'expect': 'accept', 'dup_dim': False})
        for g_ in gs:
            n = model.fresh()
            add({'a': 'derive_unit', 'type': pn, 'units': [nu, g_],
                 'sym': f'v{n}', 'expect': 'accept'})
        op_ = '/' if s_ < 0 else '*'
        scenario_probes += [('uu' + op_, nu, lref), ('qq' + op_, nu, lref),
                            ('qu' + op_, nu, lref), ('uu' + op_, nu, gs[0])]
    if rng.random() < 0.1:
        # scenario: a type whose dimension cancels (Cycles = Frequency *
        # Duration with Frequency = 1 / Duration).  Before it is declared
        # hz * s is a plain number, afterwards a unit of that type - in
        # every history, also where hz * s was evaluated before
        def add(act):
            decl.apply(model, act)
            decls.append(act)
        n = model.fresh()
        dn, s_ = f'T{n}', f'r{n}'
        add({'a': 'base_type', 'name': dn, 'ref_sym': s_, 'quantum': None,
             'expect': 'accept'})
        n = model.fresh()
        fn, hz_ = f'D{n}', f'a{n}'
        add({'a': 'derived_type', 'name': fn, 'items': [[dn, -1]],
             'style': rng.randrange(3), 'ref_sym': hz_, 'auto_ref': False,
             'quantum': None, 'expect': 'accept', 'dup_dim': False})
        n = model.fresh()
        add({'a': 'derived_type', 'name': f'D{n}',
             'items': [[fn, 1], [dn, 1]], 'style': rng.randrange(3),
             'ref_sym': f'a{n}', 'auto_ref': False, 'quantum': None,
             'expect': 'accept', 'dup_dim': False})
        cyc_ = f'a{n}'
        n = model.fresh()
        khz_ = f'u{n}'
        add({'a': 'scaled_unit', 'type': fn, 'sym': khz_, 'parent': hz_,
             'k': {'t': 'int', 'v': '1000'}, 'via': 'rmul',
             'expect': 'accept'})
        if rng.random() < 0.7:
            # ... and a unit of the cancelling type that has exactly the
            # scale of kHz * s
            n = model.fresh()
            add({'a': 'scaled_unit', 'type': f'D{n - 2}', 'sym': f'u{n}',
                 'parent': cyc_, 'k': {'t': 'int', 'v': '1000'},
                 'via': 'rmul', 'expect': 'accept'})
        scenario_probes += [('uu*', hz_, s_), ('uu*', s_, hz_),
                            ('uu*', hz_, s_), ('qq*', s_, hz_),
                            ('uu*', khz_, s_), ('qq*', s_, khz_),
                            ('uu*', s_, khz_)]
    if rng.random() < 0.1:
        # scenario: symbols that look like rendered terms.  X*Y has the
        # unit 'x·y'; its square renders as 'x·y²' when written without
        # parentheses - which is the symbol of the unit of X*Y**2, another
        # type.  (x·y)**2 must be a unit of X**2*Y**2 in every history.
        def add(act):
            decl.apply(model, act)
            decls.append(act)
        n = model.fresh()
        xn, x_ = f'T{n}', f'r{n}'
        add({'a': 'base_type', 'name': xn, 'ref_sym': x_, 'quantum': None,
             'expect': 'accept'})
        n = model.fresh()
        yn, y_ = f'T{n}', f'r{n}'
        add({'a': 'base_type', 'name': yn, 'ref_sym': y_, 'quantum': None,
             'expect': 'accept'})
        for items_, sym_ in (([[xn, 1], [yn, 1]], f'{x_}·{y_}'),
                             ([[xn, 1], [yn, 2]], f'{x_}·{y_}²'),
                             ([[xn, 2], [yn, 2]], f'{x_}²·{y_}²')):
            n = model.fresh()
            add({'a': 'derived_type', 'name': f'D{n}', 'items': items_,
                 'style': rng.randrange(3), 'ref_sym': sym_,
                 'auto_ref': False, 'quantum': None, 'expect': 'accept',
                 'dup_dim': False})
        xy = f'{x_}·{y_}'
        scenario_probes += [('u**', xy, xy), ('qq*', xy, xy),
                            ('uu*', xy, xy), ('u**', xy, xy)]
    if rng.random() < 0.15:
        # scenario: two different units of one type WITHOUT reference unit
        # (two currencies, two plain units) in one product, reached by
        # nesting and cancellation: C = T*W, X = C*T/W (dimension T**2),
        # X's unit derived from (a.w, b, w) is a.b; a*b and b*a must both
        # find it, whatever the symbols' order
        def add(act):
            decl.apply(model, act)
            decls.append(act)
        ok = True
        if rng.random() < 0.5:
            tn_ = 'Money'
            codes = [c for c in ('EUR', 'USD', 'CHF', 'GBP', 'JPY', 'SEK')]
            ua, ub = rng.sample(codes, 2)
            for c in (ua, ub):
                if c not in model.units:
                    add({'a': 'currency_reg', 'code': c,
                         'expect': 'accept'})
        else:
            n = model.fresh()
            tn_ = f'T{n}'
            add({'a': 'base_type', 'name': tn_, 'ref_sym': None,
                 'quantum': None, 'expect': 'accept'})
            n = model.fresh()
            ua, ub = f'u{n}', rng.choice([f'u{n}b', f'U{n}', f'u{n}B'])
            if rng.random() < 0.5:
                ua, ub = ub, ua
            add({'a': 'plain_unit', 'type': tn_, 'sym': ua,
                 'expect': 'accept'})
            add({'a': 'plain_unit', 'type': tn_, 'sym': ub,
                 'expect': 'accept'})
        n = model.fresh()
        wn, wref = f'T{n}', f'r{n}'
        add({'a': 'base_type', 'name': wn, 'ref_sym': wref,
             'quantum': None, 'expect': 'accept'})
        dim_c = decl.dim_add(model.types[tn_]['dim'],
                             model.types[wn]['dim'], 1)
        dim_x = decl.dim_add({}, model.types[tn_]['dim'], 2)
        if decl.dim_key(dim_c) in model.dims or \
                decl.dim_key(dim_x) in model.dims:
            ok = False
        tower = rng.random() < 0.4
        if tower:
            # ... or a tower over that type: Q2 = Q**2 (unit a**2),
            # Q3 = Q*Q2 (unit b.a**2), Q4 = Q*Q3 (unit b.b.a**2): three
            # and more units of one reference-less type in one product, one
            # of them repeated
            dims_ = [decl.dim_add({}, model.types[tn_]['dim'], e_)
                     for e_ in (2, 3, 4)]
            if any(decl.dim_key(d_) in model.dims for d_ in dims_):
                ok = False
            prev_t, prev_u = None, None
            for lvl in (2, 3, 4):
                if not ok:
                    break
                n = model.fresh()
                tname = f'D{n}'
                items_ = [[tn_, 2]] if lvl == 2 else [[tn_, 1], [prev_t, 1]]
                add({'a': 'derived_type', 'name': tname, 'items': items_,
                     'style': 0, 'ref_sym': None, 'auto_ref': False,
                     'quantum': None, 'expect': 'accept', 'dup_dim': False})
                n = model.fresh()
                uname = f'v{n}'
                add({'a': 'derive_unit', 'type': tname,
                     'units': [ua] if lvl == 2 else [ub, prev_u],
                     'sym': uname, 'expect': 'accept'})
                if lvl >= 3:
                    scenario_probes += [('uu*', prev_u, ub),
                                        ('uu*', ub, prev_u),
                                        ('qq*', prev_u, ub)]
                prev_t, prev_u = tname, uname
            ok = False      # (the nesting variant below is the alternative)
        if ok:
            n = model.fresh()
            cn = f'D{n}'
            add({'a': 'derived_type', 'name': cn,
                 'items': [[tn_, 1], [wn, 1]], 'style': 0, 'ref_sym': None,
                 'auto_ref': False, 'quantum': None, 'expect': 'accept',
                 'dup_dim': False})
            n = model.fresh()
            cu = f'v{n}'
            add({'a': 'derive_unit', 'type': cn, 'units': [ua, wref],
                 'sym': cu, 'expect': 'accept'})
            n = model.fresh()
            xn = f'D{n}'
            add({'a': 'derived_type', 'name': xn,
                 'items': [[cn, 1], [tn_, 1], [wn, -1]], 'style': 0,
                 'ref_sym': None, 'auto_ref': False, 'quantum': None,
                 'expect': 'accept', 'dup_dim': False})
            n = model.fresh()
            xu = f'v{n}'
            add({'a': 'derive_unit', 'type': xn, 'units': [cu, ub, wref],
                 'sym': xu, 'expect': 'accept'})
            scenario_probes += [('uu*', ua, ub), ('uu*', ub, ua),
                                ('qq*', ub, ua), ('qq*', ua, ub)]
    if rng.random() < 0.15:
        # scenario: a type is rejected because its reference symbol is
        # taken, later the same dimension is declared properly; operations
        # of that dimension must then give instances of the declared type
        refs = [t for t in model.types_with_ref()
                if not model.types[t]['catalogue']] or \
            model.types_with_ref()
        if len(refs) >= 1 and model.uorder:
            ta, tb = rng.choice(refs), rng.choice(refs)
            e = rng.choice([1, 1, -1]) if ta != tb else 1
            items = [[ta, 1], [tb, e]]
            dim = {}
            for tn, ee in decl.merge_items(items):
                dim = decl.dim_add(dim, model.types[tn]['dim'], ee)
            if dim and decl.dim_key(dim) not in model.dims:
                n = model.fresh()
                noise.append({'a': 'derived_type', 'name': f'D{n}',
                              'items': items, 'style': rng.randrange(3),
                              'ref_sym': rng.choice(model.uorder),
                              'auto_ref': False, 'quantum': None,
                              'expect': 'reject', 'bad': 'dup_symbol',
                              'after': len(decls)})
                n = model.fresh()
                act = {'a': 'derived_type', 'name': f'D{n}',
                       'clsname': f'D{n - 1}' if rng.random() < 0.5
                       else f'D{n}', 'items': items,
                       'style': rng.randrange(3), 'ref_sym': f'a{n}',
                       'auto_ref': False, 'quantum': None,
                       'expect': 'accept', 'dup_dim': False}
                decl.apply(model, act)
                decls.append(act)
                ra, rb = model.types[ta]['ref'], model.types[tb]['ref']
                scenario_probes += [
                    (rng.choice(['uu', 'qq', 'qu']) +
                     ('*' if e == 1 else '/'), ra, rb) for _ in range(2)]
    # ---- probes
    syms = list(model.uorder)
    user_syms = syms[n_given:] or syms
    noref_syms = [s for s in syms
                  if model.units[s]['factor'] is None] or syms
    by_dim = {}
    probes = []

    def dim_of(s):
        return model.types[model.units[s]['type']]['dim']

    def defined(bvec, num):
        return not bvec or model.result_exists(bvec, num)

    # directed probes: operations whose result normalizes *exactly* to a
    # declared non-reference unit (so that "first registered wins" and the
    # fall-back resolution both come into play, depending on the history)
    directed = []
    for act in decls:
        its = None
        if act['a'] == 'term_unit':
            its = act['items']
        elif act['a'] == 'derive_unit':
            t = model.types[act['type']]
            its = [[u, e] for u, (_, e) in zip(act['units'], t['items'])]
        if its and len(its) == 2 and (abs(its[0][1]) != 1 or
                                      abs(its[1][1]) != 1):
            # a unit made of two units with other exponents (m/s**2): the
            # plain product and quotient of the same two units are
            # different things and must not be confused with it
            directed += [('*', its[0][0], its[1][0]),
                         ('/', its[0][0], its[1][0])]
            continue
        if not its or len(its) != 2:
            continue
        (a, ea), (b, eb) = its
        if ea == -1:
            (a, ea), (b, eb) = (b, eb), (a, ea)
        if ea != 1:
            continue
        w = act['sym']
        if eb == 1:     # w = a*b
            directed += [('*', a, b), ('/', w, b), ('/', w, a)]
        else:           # w = a/b
            directed += [('/', a, b), ('*', w, b), ('/', a, w)]
    for form, s1, s2 in scenario_probes:
        if form.startswith('uq') and form[2] == '/':
            form = 'qu/'
        probes.append({'id': len(probes), 'form': form, 's1': s1, 's2': s2,
                       'n': 2, 'a1': rng.choice(['3', '100', '7']),
                       'a2': rng.choice(['2', '9', '1'])})
    rng.shuffle(directed)
    for opn, s1, s2 in directed[:rng.choice([0, 2, 4, 6])]:
        form = rng.choice(['uu', 'qq', 'qu']) + opn
        probes.append({'id': len(probes), 'form': form, 's1': s1, 's2': s2,
                       'n': 2, 'a1': rng.choice(['3', '100', '7/2']),
                       'a2': rng.choice(['2', '9', '5/4'])})
    tries = 0
    n_probes = len(probes) + rng.randrange(
        3, (20 if deep else MAX_PROBES) + 1)
    while len(probes) < n_probes and tries < 300:
        tries += 1
        form = rng.choice(['uu*', 'uu*', 'uu/', 'uu/', 'u**', 'qq*', 'qq/',
                           'qu*', 'qu/', 'uq*', 'k/u', 'k/q', 'q**'])
        x = rng.random()
        s1 = rng.choice(noref_syms if x < 0.25 else user_syms
                        if x < 0.7 else syms)
        s2 = rng.choice(user_syms if rng.random() < 0.5 else syms)
        n = rng.choice([2, 2, 3, -1, -2, 0, 1, 4, -3, 4, -4, 10])
        if form in ('u**', 'q**'):
            bvec, num = model.expand([(s1, n)])
        elif form in ('k/u', 'k/q'):
            bvec, num = model.expand([(s1, -1)])
        elif form.endswith('*'):
            bvec, num = model.expand([(s1, 1), (s2, 1)])
        else:
            bvec, num = model.expand([(s1, 1), (s2, -1)])
        ok = defined(bvec, num)
        # mostly probes whose result exists at the end of the program
        if not ok and rng.random() < 0.85:
            continue
        a1 = rng.choice(['3', '7/2', '1/3', '12.5', '100', '0', '-3'])
        a2 = rng.choice(['2', '5/4', '0.25', '9'])
        probes.append({'id': len(probes), 'form': form, 's1': s1, 's2': s2,
                       'n': n, 'a1': a1, 'a2': a2})
        if form == 'u**' and rng.random() < 0.35:
            # the same power with the exponent given as float: rejected
            # with TypeError - and must not influence u ** n
            probes.append({'id': len(probes), 'form': 'u**f', 's1': s1,
                           's2': s2, 'n': n, 'a1': a1, 'a2': a2})
        # siblings: the same operands under the other operator / swapped
        # (what a memo keyed too coarsely would confuse)
        if form[:2] in ('uu', 'qq', 'qu', 'uq'):
            other = {'*': '/', '/': '*'}[form[2]]
            if rng.random() < 0.4 and form[:2] != 'uq':
                probes.append({'id': len(probes), 'form': form[:2] + other,
                               's1': s1, 's2': s2, 'n': n, 'a1': a1,
                               'a2': a2})
            if rng.random() < 0.3:
                probes.append({'id': len(probes), 'form': form if
                               form[:2] != 'uq' else 'qu*', 's1': s2,
                               's2': s1, 'n': n, 'a1': a1, 'a2': a2})
    # ---- histories
    k_worlds = rng.choice([3, 3, 4, 5, 6] + ([7, 8] if deep else []))
    created_by = {}
    for i, act in enumerate(decls):
        for c in _creates(act):
            created_by[c] = i
    deps = [sorted({created_by[n] for n in _needs(act) if n in created_by})
            for act in decls]
    histories = []
    rmode = rng.choice([None, None, 'ROUND_UP', 'ROUND_DOWN', 'ROUND_FLOOR',
                        'ROUND_HALF_UP', 'ROUND_CEILING'])
    for w in range(k_worlds):
        hr = random.Random(rng.randrange(1 << 62))
        # random topological order (world 0 keeps the generation order)
        if w == 0:
            order = list(range(len(decls)))
        else:
            order, done, left = [], set(), set(range(len(decls)))
            while left:
                ready = sorted(i for i in left
                               if all(d in done for d in deps[i]))
                i = hr.choice(ready)
                order.append(i)
                done.add(i)
                left.discard(i)
        steps = [['decl', i] for i in order]
        # noise: rejected declarations, after everything they mention exists
        for nz_i, nz in enumerate(noise):
            if hr.random() < 0.7:
                need = {created_by[n] for n in _needs(nz) +
                        (['U:' + nz['sym']] if nz.get('bad') == 'dup_symbol'
                         and nz.get('sym') else []) +
                        (['U:' + nz['ref_sym']]
                         if nz.get('bad') == 'dup_symbol'
                         and nz.get('ref_sym') else [])
                        if n in created_by}
                # ... and after everything that was declared before it
                # when it was generated, so that it is invalid here too
                need |= set(range(nz['after']))
                pos_ok = [p for p in range(len(steps) + 1)
                          if need <= {s[1] for s in steps[:p]
                                      if s[0] == 'decl'}]
                if pos_ok:
                    steps.insert(hr.choice(pos_ok), ['noise', nz_i])
        # probes at several points: as early as the operands exist (often
        # before the result type does), at random points, at the end
        for p in probes:
            opnd = {created_by.get('U:' + p['s1'], -1),
                    created_by.get('U:' + p['s2'], -1)
                    if p['form'][:2] in ('uu', 'qq', 'qu', 'uq') else -1}
            opnd.discard(-1)
            for _ in range(hr.choice([1, 2, 2, 3])):
                x = hr.random()
                if x < 0.4:
                    have = set()
                    pos = 0
                    for pos, st in enumerate(steps):
                        if opnd <= have:
                            break
                        if st[0] == 'decl':
                            have.add(st[1])
                    else:
                        pos = len(steps)
                    pos = min(len(steps), pos + hr.choice([0, 0, 1, 2]))
                elif x < 0.8:
                    pos = hr.randrange(len(steps) + 1)
                else:
                    pos = len(steps)
                steps.insert(pos, ['probe', p['id'],
                                   2 if hr.random() < 0.3 else 1])
        for _ in range(hr.choice([0, 0, 1, 2, 4])):
            steps.insert(hr.randrange(len(steps) + 1), ['evict'])
        if rmode:
            # the user switches decimalfp's default rounding mode, once,
            # somewhere in every history of this run: a result depends on
            # the mode at the moment of the operation, on nothing earlier
            steps.insert(hr.randrange(len(steps) + 1), ['rmode', rmode])
        # other operations of the API in between (quantize with explicit
        # rounding modes - also of amount zero -, round, convert, allocate,
        # add, compare): they must not influence any product / quotient
        quantized = [s for p in probes for s in (p['s1'], p['s2'])
                     if s in model.units and model.types[
                         model.units[s]['type']]['quantum'] is not None]
        operands = [p['s1'] for p in probes]
        for _ in range(hr.choice([0, 0, 2, 4])):
            if syms:
                k = hr.randrange(15)
                # mostly on operands of the probes; the allocating kinds
                # mostly on operands of quantized types
                pool_ = quantized if quantized and k in (4, 6, 7, 8, 9) \
                    and hr.random() < 0.8 else \
                    operands if operands and hr.random() < 0.6 else syms
                steps.insert(hr.randrange(len(steps) + 1),
                             ['other', k, hr.choice(pool_),
                              hr.choice(syms)])
        # all probes once more at the very end
        for p in probes:
            if hr.random() < 0.5:
                steps.append(['probe', p['id'], 1])
        histories.append(steps)
    if tier == 'thorough':
        # a share of the worlds are fresh interpreters under another
        # PYTHONHASHSEED (the first world always is a fork of the template)
        for steps in histories[1:]:
            hs = rng.choice([None, None, 1, 4242])
            if hs is not None:
                steps.insert(0, ['hashseed', hs])
    return {'cfg': {'variant': variant, 'decls': decls, 'noise': noise,
                    'probes': probes},
            'ops': histories}


def shrink_args(h):
    """The op list of this check is the list of histories (worlds); inside
    a history steps are dropped one by one."""
    import copy
    for w, steps in enumerate(h['ops']):
        # drop chunks, then single steps
        n = len(steps)
        for size in (max(1, n // 2), max(1, n // 4), 1):
            for i in range(0, n, size):
                c = copy.deepcopy(h)
                del c['ops'][w][i:i + size]
                yield c


# --------------------------------------------------------------------------
# one world

def _fr(x):
    return Fraction(x.numerator, x.denominator)


def run_world(arg):
    cfg, steps = arg
    from decimalfp import Decimal
    from quantity import Quantity, Unit, UndefinedResultError
    env = decl.Env()
    if cfg['variant'] == 'predefined':
        decl.seed_catalogue(decl.RefDir(), env)
    decls, noise, probes = cfg['decls'], cfg['noise'], cfg['probes']

    def amount(s, salt=2):
        """The same number as int, Fraction or Decimal (by probe)."""
        f = Fraction(s)
        if salt % 3 == 0 and f.denominator == 1:
            return int(f)
        if salt % 3 == 1:
            return f
        return Decimal(s) if '/' not in s else f

    def value_of(res):
        """Canonical (type, exact amount in base units, base-unit vector),
        taken with the library's own observer."""
        if isinstance(res, tuple):
            amnt, unit = res
            if unit is None:
                return ['num', str(_fr(amnt))]
        elif isinstance(res, Quantity):
            amnt, unit = res.amount, res.unit
        else:
            return ['num', str(_fr(res))]
        nd = unit.normalized_definition
        num = Fraction(1)
        vec = {}
        for elem, e in nd:
            if isinstance(elem, Unit):
                vec[elem.symbol] = vec.get(elem.symbol, 0) + e
            else:
                num *= _fr(elem) ** e
        # the declared type by identity (two classes may share a name; a
        # class nobody declared successfully is a ghost), and whether the
        # unit is the declared object of that symbol
        tkey = next((k for k, c in env.types.items()
                     if c is unit.qty_cls), 'ghost:' +
                    unit.qty_cls.__name__)
        if env.units.get(unit.symbol) is not unit:
            tkey += '/ghost-unit'
        return ['qty', tkey, str(_fr(amnt) * num),
                sorted(vec.items()), unit.symbol]

    def evaluate(p):
        u1 = env.units.get(p['s1'])
        u2 = env.units.get(p['s2'])
        form = p['form']
        need2 = form[:2] in ('uu', 'qq', 'qu', 'uq')
        if u1 is None or (need2 and u2 is None):
            return ['operand_missing'], None
        a1, a2 = amount(p['a1'], p['id']), amount(p['a2'], p['id'] // 3)
        # the operands of a probe are objects the caller keeps (a quantity
        # is a value: whatever happens to it elsewhere, it stays what it is)
        q1 = held.setdefault(('1', p['id']), None) or held.__setitem__(
            ('1', p['id']), a1 * u1) or held[('1', p['id'])]
        q2 = None
        if need2:
            q2 = held.setdefault(('2', p['id']), None) or held.__setitem__(
                ('2', p['id']), a2 * u2) or held[('2', p['id'])]
        try:
            if form == 'uu*':
                r = u1 * u2
            elif form == 'uu/':
                r = u1 / u2
            elif form == 'u**':
                r = u1 ** p['n']
            elif form == 'u**f':
                r = u1 ** float(p['n'])
            elif form == 'qq*':
                r = q1 * q2
            elif form == 'qq/':
                r = q1 / q2
            elif form == 'qu*':
                r = q1 * u2
            elif form == 'qu/':
                r = q1 / u2
            elif form == 'uq*':
                r = u1 * q2
            elif form == 'k/u':
                r = a1 / u1
            elif form == 'k/q':
                r = a1 / (a2 * u1)
            elif form == 'q**':
                r = q1 ** p['n']
            else:
                raise core.HarnessError(form)
        except core.HarnessError:
            raise
        except Exception as e:      # noqa
            return ['exc', type(e).__name__], None
        try:
            return ['ok'] + value_of(r), r
        except Exception as e:      # noqa
            return ['unobservable', type(e).__name__], r

    held = {}

    def other_operation(k, s1, s2):
        from decimalfp import ROUNDING
        u, v = env.units.get(s1), env.units.get(s2)
        if u is None or v is None:
            return 'operand_missing'
        try:
            if k == 0:
                (0 * u).quantize(1 * u, ROUNDING.ROUND_UP)
            elif k == 1:
                (Decimal('7.377') * u).quantize(Decimal('0.5') * u,
                                                ROUNDING.ROUND_FLOOR)
            elif k == 2:
                round(Decimal('17.375') * u, 1)
            elif k == 3:
                (3 * u).convert(v)
            elif k == 4:
                (10 * u).allocate([1, 2, 3])
            elif k == 6:
                # shares 0.45 / 1.45 / 1.1: on a quantized type a portion
                # rounded to zero receives the dispersed rounding error
                (3 * (u.quantum or 1) * u).allocate([45, 145, 110])
            elif k == 7:
                ((u.quantum or 1) * u).allocate(
                    [1, 1, 1], disperse_rounding_error=False)
            elif k == 8:
                (0 * u).allocate([1, 2])
            elif k == 9:
                (7 * u).allocate([1 * u, 3 * u])
            elif k == 10:
                z = 0 * u
                hash(z), z == 0 * v, abs(-3 * u), -z, +z, z + z, z - z
            elif k == 11:
                sum([1 * u, 2 * u], 0 * u)
                (5 * u) - (5 * u)
            elif k == 14:
                # exchange rates applied to quantities of types that are
                # made of money (prices): an operation, not a declaration
                from quantity.money import Money, ExchangeRate
                cs = list(Money.units())[:3]
                for q_unit in list(env.units.values())[-10:]:
                    for a_ in cs:
                        for b_ in cs:
                            if a_ is b_:
                                continue
                            for fn in (
                                    lambda: ExchangeRate(a_, 1, b_, 2) *
                                    (2 * q_unit),
                                    lambda: (2 * q_unit) *
                                    ExchangeRate(a_, 1, b_, 2),
                                    lambda: (2 * q_unit) /
                                    ExchangeRate(a_, 1, b_, 2)):
                                try:
                                    fn()
                                except Exception:   # noqa
                                    pass
            elif k == 13:
                # totals and halves computed from the kept operands with
                # augmented assignments on other names
                from quantity.utils import sum as qsum
                for q in list(held.values())[:8]:
                    if q is None:
                        continue
                    t = +q
                    t *= 2
                    t /= 4
                    t = qsum([q])
                    t *= 3
                    t = q
                    t += q
                    t -= q
            elif k == 12:
                # a burst of several hundred distinct operations (whatever
                # they yield): bounded memos start evicting
                us = list(env.units.values())
                us = us[:12] + us[-12:]
                for x in us:
                    for y in us:
                        for fn in (lambda: x * y, lambda: x / y,
                                   lambda: (2 * x) * (3 * y)):
                            try:
                                fn()
                            except Exception:   # noqa
                                pass
            else:
                (3 * u) + (2 * v) < (5 * u)
        except Exception as e:      # noqa
            return 'exc:' + type(e).__name__
        return 'ok'

    out = []
    for st in steps:
        if st[0] == 'decl':
            res, info = decl.perform(env, decls[st[1]])
            out.append(['decl', st[1], res, info if res == 'ok' else None])
        elif st[0] == 'noise':
            act = noise[st[1]]
            try:
                res, info = decl.perform(env, act)
            except KeyError:
                res = 'skipped'
            out.append(['noise', st[1], res])
        elif st[0] == 'evict':
            res, info = decl.perform(env, {'a': 'evict'})
            out.append(['evict', info.get('evicted', 0)])
        elif st[0] == 'rmode':
            import decimalfp
            decimalfp.set_dflt_rounding_mode(
                getattr(decimalfp.ROUNDING, st[1]))
            # (operands are made anew under the new mode: making a
            # quantized operand is part of the operation)
            held.clear()
            out.append(['rmode', st[1]])
        elif st[0] == 'hashseed':
            out.append(['hashseed', os.environ.get('PYTHONHASHSEED')])
        elif st[0] == 'other':
            out.append(['other', other_operation(st[1], st[2], st[3])])
        else:
            p = probes[st[1]]
            o1, r1 = evaluate(p)
            rec = ['probe', st[1], o1]
            if st[2] == 2:
                o2, r2 = evaluate(p)
                same = None
                if r1 is not None and r2 is not None:
                    try:
                        same = bool(r1 == r2)
                    except Exception as e:      # noqa
                        same = 'exc:' + type(e).__name__
                rec += [o2, same]
            out.append(rec)
    return out


# --------------------------------------------------------------------------

def judge(h):
    kf = core.KnownFindings()
    cfg = h['cfg']
    decls, probes = cfg['decls'], cfg['probes']
    faults, pr, known = {}, {}, {}
    violations = []

    def bump(d, k, n=1):
        d[k] = d.get(k, 0) + n

    def violate(cls, **facts):
        facts = dict(facts, **{'class': cls})
        fid = kf.match(PROP, 'history', facts)
        if fid:
            bump(known, fid)
            return
        if not violations:
            violations.append(dict(facts, oracle='history'))

    evals = {}      # probe id -> list of (world, step, pre, outcome)
    finals = {}     # probe id -> evaluations after the last declaration
    same_end_state = [True]
    logs = []
    n_steps = 0
    for w, steps in enumerate(h['ops']):
        hs = steps[0][1] if steps and steps[0][0] == 'hashseed' else None
        out = core.run_in_world(run_world, (cfg, steps), hs,
                                predefined=cfg['variant'] == 'predefined')
        logs.append(out)
        n_steps += len(out)
        model = new_model(cfg['variant'])
        model.conv_total = {}
        probe_model = new_model(cfg['variant'])
        for d_ in decls:
            try:
                decl.apply(probe_model, d_, {})
            except Exception:       # noqa: only asks for the final dims
                pass
        model.dimensionless_type_to_come = () in probe_model.dims
        for d_ in decls:
            if d_['a'] == 'table_conv':
                model.conv_total[d_['type']] = \
                    model.conv_total.get(d_['type'], 0) + 1
        undefined_before = {}      # probe id -> step where it raised
        order_sig = []
        decl_left = sum(1 for s_ in steps if s_[0] == 'decl')
        epoch = 0
        for si, rec in enumerate(out):
            if rec[0] == 'decl':
                decl_left -= 1
                act = decls[rec[1]]
                if rec[2] != 'ok':
                    same_end_state[0] = False
                if rec[2] == 'ok':
                    decl.apply(model, act, rec[3])
                    order_sig.append(rec[1])
                else:
                    bump(pr, 'valid_declaration_refused')
            elif rec[0] == 'noise':
                if rec[2] == 'exc':
                    bump(faults, 'rejected_declaration_as_noise')
                elif rec[2] == 'ok':
                    bump(pr, 'noise_declaration_accepted')
                    same_end_state[0] = False
            elif rec[0] == 'evict':
                bump(faults, 'memo_eviction')
            elif rec[0] == 'rmode':
                epoch = 1
                bump(faults, 'rounding_mode_switched')
            elif rec[0] == 'other':
                if rec[1] != 'operand_missing':
                    bump(faults, 'other_api_operation_in_between')
            elif rec[0] == 'hashseed':
                if rec[1] != str(hs):
                    raise core.HarnessError(
                        f"world ran under hash seed {rec[1]}, wanted {hs}")
                bump(faults, 'restart_under_other_hash_seed')
            else:
                p = probes[rec[1]]
                o1 = rec[2]
                if o1[0] == 'operand_missing':
                    bump(pr, 'probe_before_its_operands')
                    continue
                pre = _precondition(model, p)
                recs = [o1] + ([rec[3]] if len(rec) > 3 else [])
                for o in recs:
                    evals.setdefault((rec[1], epoch), []).append(
                        (w, si, pre, o))
                    if decl_left == 0:
                        finals.setdefault((rec[1], epoch), []).append(
                            (w, si, o))
                # ---- oracle 3: repeating returns an equal result
                if len(rec) > 3:
                    bump(pr, 'evaluated_twice_in_a_row')
                    if rec[2][:4] != rec[3][:4] or rec[4] not in (True, None):
                        violate('repeat_differs', probe=p, world=w, step=si,
                                first=rec[2], second=rec[3],
                                equal=rec[4])
                # ---- oracle 2: Undefined, then succeeds once declared
                und = o1[0] == 'exc' and o1[1] == 'UndefinedResultError'
                if und and not pre:
                    undefined_before.setdefault(rec[1], si)
                    bump(faults, 'operation_before_result_type_exists')
                if pre and rec[1] in undefined_before:
                    bump(pr, 'retried_after_undefined')
                    if und:
                        violate('still_undefined_after_declaration',
                                probe=p, world=w, step=si,
                                first_raised_at=undefined_before[rec[1]])
    # ---- oracle 1: same outcome whenever the precondition holds
    for (pid, _epoch), lst in evals.items():
        good = [e for e in lst if e[2]]
        if len({e[0] for e in good}) >= 2:
            bump(pr, 'probe_compared_across_worlds')
        ref = None
        for e in good:
            key = e[3][:5] if e[3][0] == 'ok' else e[3]
            if ref is None:
                ref = (e, key)
            elif key != ref[1]:
                violate('value_depends_on_history', probe=probes[pid],
                        world_a=ref[0][0], step_a=ref[0][1],
                        outcome_a=ref[0][3], world_b=e[0], step_b=e[1],
                        outcome_b=e[3])
                break
        units = {tuple(e[3][5:6]) for e in good if e[3][0] == 'ok'
                 and len(e[3]) > 5}
        if len(units) >= 2:
            bump(pr, 'result_unit_differs_between_histories')
    # ---- oracle 4: after the last declaration all histories have
    # declared the same; whatever an operation yields then (a value or a
    # refusal), it yields in every history
    if same_end_state[0]:
        for (pid, _epoch), lst in finals.items():
            ref = None
            for w_, si_, o_ in lst:
                key = o_[:5] if o_[0] == 'ok' else ('refused',)
                if ref is None:
                    ref = (w_, si_, o_, key)
                elif key != ref[3]:
                    violate('end_state_outcome_differs', probe=probes[pid],
                            world_a=ref[0], step_a=ref[1], outcome_a=ref[2],
                            world_b=w_, step_b=si_, outcome_b=o_)
                    break
            if len({w_ for w_, _s, _o in lst}) >= 2:
                bump(pr, 'end_state_compared_across_worlds')
    res = {'digest': core.digest(logs), 'violations': violations,
           'known': known, 'faults': faults, 'probes': pr,
           'ops': n_steps, 'worlds': len(h['ops']),
           'hist_digest': core.digest([cfg, h['ops']]),
           'reach': {'orders': [core.digest([s for s in steps
                                             if s[0] == 'decl'])
                                for steps in h['ops']][:8]}}
    res['nontrivial'] = bool(sum(faults.values()) >= 1 and
                             pr.get('probe_compared_across_worlds', 0) >= 1)
    return res


def _precondition(model, p):
    """Result type (unit) declared at this point, per the model."""
    form = p['form']
    if form == 'u**f':
        return True         # always the same answer: TypeError
    if form in ('qq/', 'qu/') and p['s1'] in model.units and \
            p['s2'] in model.units:
        t1 = model.units[p['s1']]['type']
        if t1 == model.units[p['s2']]['type'] and \
                model.types[t1]['ref'] is None and \
                model.types[t1]['base'] and not model.types[t1]['money']:
            # same type without reference unit: a number, if a registered
            # converter relates the two units (in either direction)
            if p['s1'] == p['s2']:
                return True
            # (... and all converters the program registers for the type
            # are registered: the most recent one answers)
            pairs = model.types[t1].get('conv_pairs', [])
            return ((p['s1'], p['s2']) in pairs or
                    (p['s2'], p['s1']) in pairs) and \
                model.types[t1].get('n_convs', 0) == getattr(
                    model, 'conv_total', {}).get(t1, 1)
    try:
        if form in ('u**', 'q**'):
            if p['n'] == 0:
                return True
            bvec, num = model.expand([(p['s1'], p['n'])])
            if p['n'] == 1:
                return True
        elif form in ('k/u', 'k/q'):
            bvec, num = model.expand([(p['s1'], -1)])
        elif form.endswith('*'):
            bvec, num = model.expand([(p['s1'], 1), (p['s2'], 1)])
        else:
            bvec, num = model.expand([(p['s1'], 1), (p['s2'], -1)])
    except KeyError:
        return False
    if not bvec:
        # a plain number - unless the program declares a type whose
        # dimension cancels: then the result is of that type from its
        # declaration on
        return not getattr(model, 'dimensionless_type_to_come', False) or \
            () in model.dims
    return model.result_exists(bvec, num)


def run_one(seed, run, tier):
    h = gen(seed, run, tier)
    res = judge(h)
    res['sample'] = h if run < 2 else None
    return res


RULE = ("run i draws, from random.Random(splitmix64(VERIF_SEED,'C17',i)), a "
        "program: 5-22 valid declarations (resolved against RefDir, all "
        "kinds of C15), rejected declarations as noise, 3-12 probes over "
        "{u*v, u/v, u**n, q*r, q/r, q*u, q/u, u*q, k/u, q**n}; from it 3-6 "
        "histories: random topological orders of the declarations, each "
        "probe evaluated at 1-3 random points (also before its result "
        "type exists), sometimes twice in a row, memo evictions, noise; "
        "each history runs in a fresh forked world. Compared: all "
        "evaluations of a probe made while the model says the result "
        "type/unit is declared (type name, exact amount in base units, "
        "base-unit vector); no UndefinedResultError after the missing "
        "declaration; repeated evaluation equal. Distinct = digest of "
        "(program, histories); non-trivial = >=1 fault fired (operation "
        "before its result type exists, eviction, rejected declaration) and "
        ">=1 probe compared across >=2 worlds.")
ASSUMPTIONS = [
    "single-threaded use; python without -O",
    "differential oracle: a value that is wrong in the same way in every "
    "history is invisible (that is C02, not claimed)",
    "the result *unit* may differ between histories (first registered "
    "wins) and is not compared",
    "decimalfp pure-Python implementation (see DESIGN.md 2.11)",
]
REAL = ["quantity (Unit/Quantity operators, _UNIT_OP_CACHE, term registry, "
        "Term normalisation) from /repo/src", "decimalfp"]
STUBS = ["process restart = fork of the pristine template (thorough tier: "
         "also fresh interpreters under another PYTHONHASHSEED)"]
