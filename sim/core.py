"""Shared machinery of the deterministic simulator.

* seed derivation (one integer decides everything)
* fork-per-world runner with wall limits
* worker pools (one per world variant), time/run budgets
* ddmin minimiser, replay files
* known-findings matcher
* evidence writer

Nothing in here imports `quantity`; that is done by sim.world in the template
process before the pools are forked.
"""
from __future__ import annotations

import faulthandler
import hashlib
import json
import os
import random
import select
import signal
import sys
import time
import traceback
from concurrent.futures import ProcessPoolExecutor, as_completed, wait, FIRST_COMPLETED
import multiprocessing

VERIF_DIR = os.path.dirname(os.path.dirname(os.path.abspath(__file__)))
MASK = (1 << 64) - 1

EXIT_OK, EXIT_VIOLATION, EXIT_HARNESS = 0, 1, 2


class HarnessError(Exception):
    """The simulator itself failed (time-out, crash of a child, bug in the
    harness).  Never reported as 'held' and never as VIOLATION."""


# --------------------------------------------------------------------------
# seeds

def _splitmix64(x: int) -> int:
    x = (x + 0x9E3779B97F4A7C15) & MASK
    z = x
    z = ((z ^ (z >> 30)) * 0xBF58476D1CE4E5B9) & MASK
    z = ((z ^ (z >> 27)) * 0x94D049BB133111EB) & MASK
    return z ^ (z >> 31)


def derive_seed(verif_seed: int, prop: str, run: int) -> int:
    """Explicit integer mix of (VERIF_SEED, property id, run index)."""
    x = _splitmix64(verif_seed & MASK)
    for ch in prop.encode():
        x = _splitmix64(x ^ ch)
    x = _splitmix64(x ^ (run & MASK))
    return x


def rng_for(verif_seed: int, prop: str, run: int) -> random.Random:
    return random.Random(derive_seed(verif_seed, prop, run))


def digest(obj) -> str:
    return hashlib.sha256(
        json.dumps(obj, sort_keys=True, separators=(',', ':'),
                   ensure_ascii=True).encode()).hexdigest()[:20]


# --------------------------------------------------------------------------
# fork-per-world

CHILD_WALL_S = float(os.environ.get('VERIF_CHILD_WALL_S', '30'))


def run_in_child(fn, arg, wall_s: float = None):
    """Run fn(arg) in a forked child (a pristine copy of this interpreter
    state) and return its JSON-serialisable result."""
    if wall_s is None:
        wall_s = CHILD_WALL_S
    r, w = os.pipe()
    sys.stdout.flush()
    sys.stderr.flush()
    pid = os.fork()
    if pid == 0:  # child
        code = 0
        try:
            os.close(r)
            try:
                faulthandler.dump_traceback_later(wall_s + 5, exit=True)
            except Exception:
                pass
            try:
                res = fn(arg)
                data = json.dumps(['ok', res], separators=(',', ':'))
            except BaseException:
                data = json.dumps(['err', traceback.format_exc()])
                code = 3
            data = data.encode()
            off = 0
            while off < len(data):
                off += os.write(w, data[off:off + 65536])
            os.close(w)
        except BaseException:
            code = 4
        finally:
            os._exit(code)
    # parent
    os.close(w)
    chunks = []
    deadline = time.monotonic() + wall_s
    timed_out = False
    try:
        while True:
            left = deadline - time.monotonic()
            if left <= 0:
                timed_out = True
                break
            rl, _, _ = select.select([r], [], [], left)
            if not rl:
                timed_out = True
                break
            b = os.read(r, 1 << 20)
            if not b:
                break
            chunks.append(b)
    finally:
        os.close(r)
        if timed_out:
            try:
                os.kill(pid, signal.SIGKILL)
            except ProcessLookupError:
                pass
        _, status = os.waitpid(pid, 0)
    if timed_out:
        raise HarnessError(f"world timed out after {wall_s}s")
    raw = b''.join(chunks)
    try:
        tag, res = json.loads(raw.decode())
    except Exception:
        raise HarnessError(f"world died (status {status}), "
                           f"output {raw[:200]!r}") from None
    if tag != 'ok':
        raise HarnessError("exception in world:\n" + res)
    return res


# --------------------------------------------------------------------------
# worlds under another hash seed: fresh interpreters that fork per request

_SERVERS = {}


class WorldServer:
    def __init__(self, hashseed):
        import subprocess
        from sim import world
        env = dict(os.environ, PYTHONHASHSEED=str(hashseed),
                   VERIF_REPO_SRC=world.REPO_SRC,
                   PYTHONDONTWRITEBYTECODE='1')
        self.hashseed = hashseed
        self.p = subprocess.Popen(
            [sys.executable, '-B', os.path.join(VERIF_DIR, 'sim',
                                                'server.py')],
            stdin=subprocess.PIPE, stdout=subprocess.PIPE, env=env,
            text=True, bufsize=1)

    def call(self, mod, fn, arg, wall_s=None, predefined=False):
        wall_s = wall_s or CHILD_WALL_S
        self.p.stdin.write(json.dumps(
            {'mod': mod, 'fn': fn, 'arg': arg, 'wall_s': wall_s,
             'predefined': predefined}, separators=(',', ':')) + '\n')
        self.p.stdin.flush()
        rl, _, _ = select.select([self.p.stdout], [], [], wall_s + 30)
        if not rl:
            self.close()
            raise HarnessError(f"world server (hash seed {self.hashseed}) "
                               f"does not answer")
        line = self.p.stdout.readline()
        if not line:
            self.close()
            raise HarnessError(f"world server (hash seed {self.hashseed}) "
                               f"died")
        res = json.loads(line)
        if 'err' in res:
            raise HarnessError(res['err'])
        return res['ok']

    def close(self):
        try:
            self.p.kill()
        except Exception:
            pass
        _SERVERS.pop(self.hashseed, None)


def run_in_world(fn, arg, hashseed=None, predefined=False):
    """fn(arg) in a fresh world; `hashseed` None = fork of this process,
    otherwise a fork of a fresh interpreter started under that
    PYTHONHASHSEED (fn must be a module-level function)."""
    if hashseed is None:
        return run_in_child(fn, arg)
    srv = _SERVERS.get(hashseed)
    if srv is None or srv.p.poll() is not None:
        srv = _SERVERS[hashseed] = WorldServer(hashseed)
    return srv.call(fn.__module__, fn.__name__, arg, predefined=predefined)


def _close_servers():
    for s in list(_SERVERS.values()):
        s.close()


import atexit  # noqa: E402
atexit.register(_close_servers)


# --------------------------------------------------------------------------
# known findings

class KnownFindings:
    def __init__(self, path=None):
        self.path = path or os.path.join(VERIF_DIR, 'known_findings.json')
        try:
            with open(self.path) as f:
                self.entries = json.load(f)['findings']
        except FileNotFoundError:
            self.entries = []

    def match(self, prop: str, oracle: str, facts: dict):
        """Return the id of the *open* entry matching this deviation."""
        for e in self.entries:
            if e.get('status') != 'open' or e['property'] != prop:
                continue
            if e.get('oracle') not in (None, oracle):
                continue
            if all(facts.get(k) == v for k, v in e['match'].items()):
                return e['id']
        return None

    def what(self, fid):
        for e in self.entries:
            if e['id'] == fid:
                return e['what']
        return fid


# --------------------------------------------------------------------------
# ddmin

def ddmin(items: list, still_fails, max_tests: int = 400):
    """Classic delta debugging on a list; `still_fails(list) -> bool`.
    Every sub-list must be executable (ops are total)."""
    tests = 0
    n = 2
    items = list(items)
    while len(items) >= 2:
        chunk = max(1, len(items) // n)
        subsets = [items[i:i + chunk] for i in range(0, len(items), chunk)]
        reduced = False
        for i in range(len(subsets)):
            complement = [x for j, s in enumerate(subsets) if j != i
                          for x in s]
            tests += 1
            if tests > max_tests:
                return items
            if complement and still_fails(complement):
                items = complement
                n = max(n - 1, 2)
                reduced = True
                break
        if not reduced:
            if chunk == 1:
                break
            n = min(n * 2, len(items))
    # final single-op pass
    i = 0
    while i < len(items) and tests <= max_tests and len(items) > 1:
        cand = items[:i] + items[i + 1:]
        tests += 1
        if still_fails(cand):
            items = cand
        else:
            i += 1
    return items


# --------------------------------------------------------------------------
# batch driver

class Stats:
    """Additive counters merged across runs."""

    def __init__(self):
        self.c = {}

    def add(self, other: dict):
        for k, v in other.items():
            if isinstance(v, dict):
                d = self.c.setdefault(k, {})
                for kk, vv in v.items():
                    d[kk] = d.get(kk, 0) + vv
            else:
                self.c[k] = self.c.get(k, 0) + v


_WORKER_CHECK = None


def _try_predefined(_):
    from sim import world
    world.load_predefined()
    return True


def _worker_init(check_mod_name, variant, repo_src):
    global _WORKER_CHECK
    from sim import world
    world.load(repo_src)
    if variant == 'predefined':
        world.load_predefined()
    import importlib
    _WORKER_CHECK = importlib.import_module(check_mod_name)


def _retry_slow(verif_seed, run, tier):
    global CHILD_WALL_S
    keep = CHILD_WALL_S
    CHILD_WALL_S = keep * 4
    try:
        res = _WORKER_CHECK.run_one(verif_seed, run, tier)
    finally:
        CHILD_WALL_S = keep
    res['slow_world'] = True
    return res


def _worker_run(args):
    verif_seed, runs, tier = args
    out = []
    for run in runs:
        t0 = time.monotonic()
        try:
            try:
                res = _WORKER_CHECK.run_one(verif_seed, run, tier)
            except HarnessError as e:
                if 'timed out' not in str(e):
                    raise
                # a world that did not finish within the wall limit on a
                # loaded machine gets one more chance with four times the
                # limit; the result says so ('slow_world').  A second
                # time-out is a harness error: nothing is concluded.
                res = _retry_slow(verif_seed, run, tier)
        except HarnessError as e:
            res = {'harness_error': str(e)}
        except Exception:
            res = {'harness_error': traceback.format_exc()}
        res['run'] = run
        res['t'] = time.monotonic() - t0
        out.append(res)
    return out


def run_batch(check, verif_seed: int, tier: str, budget_s: float,
              max_runs: int = None, workers: int = None, chunk: int = 16,
              stop_on_violation: int = 5):
    """Run simulated runs 0,1,2,... of `check` until the budget is used.

    `check` is a module with: PROP, variants, variant_of(seed, run),
    run_one(seed, run, tier) -> dict(result).
    Returns dict(results summary).
    """
    from sim import world
    workers = workers or int(os.environ.get('VERIF_WORKERS', '0')) or \
        min(16, os.cpu_count() or 1)
    ctx = multiprocessing.get_context('fork')
    variants = list(check.VARIANTS)
    unavailable = {}
    if 'predefined' in variants:
        # can the catalogue be imported at all in this tree?
        try:
            run_in_child(_try_predefined, None)
        except HarnessError as e:
            unavailable['predefined'] = str(e)[-600:]
            variants.remove('predefined')
    share = getattr(check, 'VARIANT_WORKER_SHARE', None) or \
        {v: 1.0 / len(variants) for v in variants}
    pools = {}
    nw = {}
    left = workers
    for k, v in enumerate(variants):
        n = max(1, round(workers * share[v])) if k < len(variants) - 1 \
            else max(1, left)
        left -= n
        nw[v] = n
        pools[v] = ProcessPoolExecutor(
            max_workers=n, mp_context=ctx, initializer=_worker_init,
            initargs=(check.__name__, v, world.REPO_SRC))
    t_start = time.monotonic()
    deadline = t_start + budget_s
    next_run = 0
    pending = {}
    queues = {v: [] for v in variants}
    results = []
    harness_errors = []
    n_viol = 0
    done_submitting = False
    skipped = [0]

    def refill():
        nonlocal next_run, done_submitting
        while True:
            busy = {v: 0 for v in variants}
            for vv in pending.values():
                busy[vv] += 1
            # submit what is queued, as far as each pool has capacity
            for v in variants:
                while queues[v] and busy[v] < 3 * nw[v] and \
                        (len(queues[v]) >= chunk or done_submitting):
                    runs = queues[v][:chunk]
                    del queues[v][:chunk]
                    f = pools[v].submit(_worker_run,
                                        (verif_seed, runs, tier))
                    pending[f] = v
                    busy[v] += 1
            if done_submitting:
                return
            hungry = [v for v in variants if busy[v] < 3 * nw[v]]
            backlog = sum(len(q) for q in queues.values())
            if not hungry or backlog > 40 * chunk * len(variants):
                return
            # generate further run indices (the sequence is fixed: 0,1,2,..)
            for _ in range(chunk):
                if max_runs is not None and next_run >= max_runs:
                    done_submitting = True
                    break
                vv = check.variant_of(verif_seed, next_run)
                if vv in queues:
                    queues[vv].append(next_run)
                else:
                    skipped[0] += 1
                next_run += 1

    try:
        refill()
        while pending:
            done, _ = wait(list(pending), timeout=CHILD_WALL_S * 20 + 60,
                           return_when=FIRST_COMPLETED)
            if not done:
                raise HarnessError("worker pool stalled")
            for f in done:
                pending.pop(f)
                for res in f.result():
                    if 'harness_error' in res:
                        harness_errors.append(res)
                    else:
                        results.append(res)
                        if res.get('violations'):
                            n_viol += 1
            over = time.monotonic() >= deadline
            if over or (stop_on_violation and n_viol >= stop_on_violation) \
                    or len(harness_errors) > 20:
                done_submitting = True
                for v in variants:
                    queues[v].clear()
            else:
                refill()
    finally:
        for p in pools.values():
            p.shutdown(wait=True, cancel_futures=True)
    results.sort(key=lambda r: r['run'])
    return {'results': results, 'harness_errors': harness_errors,
            'wall_s': time.monotonic() - t_start, 'workers': workers,
            'variants_unavailable': unavailable, 'runs_skipped': skipped[0]}
