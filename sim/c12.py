"""C12 - converter registration is LIFO and restores prior behaviour.

System: the real converter lists of `Money` and of one generic quantity type
without reference unit; real MoneyConverter / TableConverter objects and stub
callables.  Workload: a flat token list that is executed as a *program tree*
with genuine `with` statements.  Oracle: RefStack (a Python list per type).
"""
from __future__ import annotations

import datetime

from sim import core

PROP = 'C12'
VARIANTS = ['bare']
MAX_TOKENS = 30
MAX_DEPTH = 5
CODES = ['EUR', 'USD', 'HKD', 'JPY', 'CHF', 'TND']


def variant_of(seed, run):
    return 'bare'


# --------------------------------------------------------------------------
# generation (pure data)

def gen(seed, run, tier='quick'):
    rng = core.rng_for(seed, PROP, run)
    n_cur = rng.choice([2, 3, 3, 4])
    codes = rng.sample(CODES, n_cur)
    n_mc = rng.choice([3, 3, 3, 4])
    mconvs = []
    used = set()
    for k in range(n_mc):
        base = rng.randrange(n_cur)
        rates = {}
        for j in range(n_cur):
            if j == base:
                continue
            # a converter may lack a currency ("top lacks the rate")
            if rng.random() < 0.15:
                continue
            while True:
                r = rng.randrange(1100, 99000)
                if r not in used:
                    used.add(r)
                    break
            rates[str(j)] = f"{r}/1000"
        # half of the converters hold dated rates and read a configured
        # default-date callable (which may fail, see 'enter' below)
        mconvs.append({'base': base, 'rates': rates,
                       'kind': rng.choice(['none', 'none', 'day', 'month',
                                           'year'])})
    if rng.random() < 0.3:
        # twins: two distinct converter objects with identical content
        # (conversions cannot tell them apart, the registry must)
        mconvs[rng.randrange(len(mconvs))] = dict(mconvs[0]) \
            if len(mconvs) > 1 and rng.random() < 0.5 else \
            dict(mconvs[-1])
        if len(mconvs) < 4:
            mconvs.append(dict(mconvs[rng.randrange(len(mconvs))]))
    n_g = 3
    gconvs = []
    for k in range(n_g):
        kind = rng.choice(['stub', 'stub', 'table', 'method', 'unhashable',
                           'subtable', 'convsub'])
        table = {}
        for a in range(3):
            for b in range(3):
                if a == b:
                    continue
                x = rng.random()
                if kind in ('table', 'subtable'):
                    if a < b and x < 0.6:
                        table[f"{a}{b}"] = ['amt', f"{rng.randrange(2, 900)}/7",
                                            str(rng.randrange(0, 50))]
                        if kind == 'subtable' and rng.random() < 0.6:
                            # a TableConverter sub-class whose __call__
                            # declines this pair (in which direction, says
                            # the digit) although the table covers it
                            table[f"{a}{b}"].append(rng.randrange(3))
                else:
                    if x < 0.4:
                        table[f"{a}{b}"] = ['amt',
                                            f"{rng.randrange(2, 9000)}/11"]
                    elif x < 0.5:
                        # a float is a number, too
                        table[f"{a}{b}"] = ['amtf',
                                            str(rng.randrange(3, 9000) / 8)]
                    elif x < 0.6:
                        table[f"{a}{b}"] = ['raise']
                    elif x < 0.66 and kind in ('stub', 'unhashable'):
                        # a converter that retires: when consulted for this
                        # pair it unregisters itself and declines
                        table[f"{a}{b}"] = ['expire']
                    elif x < 0.82 and kind in ('stub', 'unhashable'):
                        # a converter that takes OTHERS out of service when
                        # it is consulted for this pair (one of the others,
                        # both, or one of them and itself) and declines
                        others = [j for j in range(n_g) if j != k]
                        table[f"{a}{b}"] = ['evict', rng.choice(
                            [[others[0]], [others[1]], others,
                             [others[0], k], [k, others[1]]])]
                        if len(table[f"{a}{b}"][1]) == 1 and \
                                rng.random() < 0.5:
                            # ... and puts the third one into service (if
                            # that one has nothing to say about this pair)
                            table[f"{a}{b}"].append(
                                3 - k - table[f"{a}{b}"][1][0])
        gconvs.append({'kind': kind, 'table': table})
    if rng.random() < 0.3:
        # twins among the generic converters, too
        gconvs[-1] = dict(gconvs[0])
    stubs_ = [j for j, g in enumerate(gconvs)
              if g['kind'] in ('stub', 'unhashable', 'method')]
    if stubs_ and rng.random() < 0.25:
        # a converter that triangulates: for one pair it asks the library
        # to convert to the third unit first (served by whichever converter
        # is registered then) and applies its own factor to that
        for g in gconvs:
            g['table'] = {k_: v_ for k_, v_ in g['table'].items()
                          if v_[0] not in ('expire', 'evict')}
        j = rng.choice(stubs_)
        a_, b_ = rng.sample(range(3), 2)
        gconvs[j] = dict(gconvs[j], table=dict(
            gconvs[j]['table'],
            **{f"{a_}{b_}": ['via', 3 - a_ - b_,
                             f"{rng.randrange(2, 900)}/13"]}))
    # swarm: op mix
    w = {
        'enter': rng.choice([2, 4, 6]),
        'leave': rng.choice([2, 4]),
        'raise': rng.choice([0, 1, 2]),
        'reg': rng.choice([0, 1, 3]),
        'rem': rng.choice([0, 1, 3]),
        'regbad': rng.choice([0, 0, 1]),
        'unsafe': rng.choice([0, 1, 2]),
        'regtmp': rng.choice([0, 0, 1, 2]),
        'remtop': rng.choice([0, 0, 1]),
        'greg': rng.choice([0, 2, 3]),
        'grem': rng.choice([0, 1, 2]),
        # registries of types DERIVED from Money / from the generic type:
        # their own, whatever the parent has registered
        # a second generic type that shares table converters with the first
        # (one TableConverter object may serve several types)
        'hreg': rng.choice([0, 0, 1, 2]),
        'hrem': rng.choice([0, 0, 1]),
        # many registrations at once (sizes are a knob, too: a stack of
        # 300 converters is as legal as one of 3)
        # many other quantity types come and use their registries
        'manytypes': rng.choice([0, 0, 0, 1]),
        # the user switches decimalfp's default rounding mode mid-way
        'rounding': rng.choice([0, 0, 1]),
        'regn': rng.choice([0, 0, 0, 1]),
        'remn': rng.choice([0, 0, 0, 1]),
        'subreg': rng.choice([0, 0, 1, 2]),
        'subrem': rng.choice([0, 0, 1]),
    }
    deep = tier == 'thorough'
    max_depth = MAX_DEPTH + 2 if deep else MAX_DEPTH
    n_tok = rng.randrange(3, (2 * MAX_TOKENS if deep else MAX_TOKENS) + 1)
    toks = []
    depth = 0
    mstack = []     # generator-side bias only
    glist = []
    kinds = list(w)
    weights = [w[k] for k in kinds]
    # systematic part: run i starts with the (i mod N)-th of all N op-symbol
    # sequences of length <= 3 that the grammar allows, so that a batch of N
    # runs covers every short prefix; the rest of the history is random
    prefixes = _prefix_list(4 if deep else 3)
    for sym in _split(prefixes[run % len(prefixes)]):
        kind, arg = sym[0], sym[1]
        if kind == 'E':
            toks.append(['enter', int(arg) % n_mc])
            mstack.append(int(arg) % n_mc)
            depth += 1
        elif kind == 'R':
            toks.append(['reg', int(arg) % n_mc])
            mstack.append(int(arg) % n_mc)
        elif kind == 'X':
            toks.append(['rem', int(arg) % n_mc])
            if mstack and mstack[-1] == int(arg) % n_mc:
                mstack.pop()
        elif kind == 'B':
            toks.append(['regbad', rng.randrange(3)])
        elif kind == 'g':
            toks.append(['greg', int(arg) % n_g])
        elif kind == 'x':
            toks.append(['grem', int(arg) % n_g])
        elif kind == 'L':
            toks.append(['leave'])
            depth -= 1
            if mstack:
                mstack.pop()
        elif kind == 'U':
            a, b = rng.sample(range(n_cur), 2)
            toks.append(['unsafe', a, b, 1])
        elif kind == '!':
            toks.append(['raise', int(arg)])
    n_tok = max(n_tok, len(toks))
    p_thread = rng.choice([0, 0, 0, 0.15, 0.3])
    while len(toks) < n_tok:
        k = rng.choices(kinds, weights)[0]
        if k in THREADABLE and rng.random() < p_thread:
            # the next registration / removal is made from another thread
            # (the registries are process-wide)
            toks.append(['thread'])
        if k == 'enter':
            if depth >= max_depth:
                continue
            c = rng.randrange(n_mc)
            if rng.random() < 0.15:
                # the converter's default-date callable fails (raises,
                # answers None, answers a string) should the with-statement
                # consult it on entry
                toks.append(['enter', c, rng.randrange(1, 4)])
            else:
                toks.append(['enter', c])
            mstack.append(c)
            depth += 1
        elif k == 'leave':
            if depth == 0:
                continue
            toks.append(['leave'])
            depth -= 1
            if mstack:
                mstack.pop()
        elif k == 'raise':
            if depth == 0:
                continue
            lv = rng.randrange(1, depth + 1) if rng.random() < 0.6 else 1
            toks.append(['raise', lv, int(rng.random() < 0.3)])
            for _ in range(lv):
                toks.append(['leave'])
                if mstack:
                    mstack.pop()
            depth -= lv
        elif k == 'reg':
            c = rng.randrange(n_mc)
            toks.append(['reg', c])
            mstack.append(c)
        elif k == 'rem':
            if mstack and rng.random() < 0.5:
                c = mstack[-1]
                mstack.pop()
            else:
                c = rng.randrange(n_mc)
            toks.append(['rem', c])
        elif k == 'regtmp':
            # (with its own rates: those of the spec times 1, 9/8, 5/4 ...;
            # 5: without any rate, never fed)
            toks.append(['regtmp', rng.randrange(n_mc), rng.randrange(6)])
            mstack.append(1000)
            for _ in range(rng.choice([0, 0, 1, 3])):
                # ... replaced at once by the next short-lived converter
                # (block after block with today's rates): the old one is
                # freed, the new one is likely to get its memory
                toks.append(['swaptmp', rng.randrange(n_mc),
                             rng.randrange(6)])
        elif k == 'remtop':
            toks.append(['remtop'])
            if mstack:
                mstack.pop()
        elif k == 'regbad':
            toks.append(['regbad', rng.randrange(3)])
        elif k == 'unsafe':
            if depth == 0:
                continue
            a, b = rng.sample(range(n_cur), 2)
            lv = rng.randrange(1, depth + 1)
            toks.append(['unsafe', a, b, lv])
        elif k == 'greg':
            toks.append(['greg', rng.randrange(n_g)])
        elif k == 'grem':
            toks.append(['grem', rng.randrange(n_g)])
        elif k == 'manytypes':
            toks.append(['manytypes', rng.choice([5, 40, 200])])
        elif k == 'rounding':
            toks.append(['rounding', rng.randrange(len(ROUNDINGS))])
        elif k == 'regn':
            c = rng.randrange(n_mc)
            n_ = rng.choice([3, 40, 300])
            toks.append(['regn', c, n_])
            mstack.extend([c] * n_)
        elif k == 'remn':
            n_ = rng.choice([3, 40, 300])
            toks.append(['remn', n_])
            del mstack[max(0, len(mstack) - n_):]
        elif k in ('hreg', 'hrem'):
            tabs = [j for j, g in enumerate(gconvs)
                    if g['kind'] in ('table', 'subtable')]
            if tabs:
                toks.append([k, rng.choice(tabs)])
        elif k in ('subreg', 'subrem'):
            which = rng.randrange(2)
            toks.append([k, which, rng.randrange(n_mc if which else n_g)])
    cfg = {'codes': codes, 'mconvs': mconvs, 'gconvs': gconvs,
           'amount': f"{rng.randrange(100000, 999999)}/100",
           'gamount': str(rng.randrange(3, 500))}
    # the other documented way to convert: Quantity('<amount> <symbol>',
    # unit) - for no pair, for some pairs, for all pairs of this run
    cfg['string_form'] = rng.choice([0, 1, 1, 2])
    return {'cfg': cfg, 'ops': toks}


def shrink_args(h):
    """Argument-level shrinking candidates."""
    import copy
    ops = h['ops']
    for i, t in enumerate(ops):
        if t[0] == 'raise' and t[1] > 1:
            c = copy.deepcopy(h)
            c['ops'][i][1] = t[1] - 1
            yield c
        if t[0] == 'unsafe' and t[3] > 1:
            c = copy.deepcopy(h)
            c['ops'][i][3] = 1
            yield c
    cfg = h['cfg']
    used_m = {t[1] for t in ops if t[0] in ('enter', 'reg', 'rem')}
    if len(cfg['mconvs']) > 1 and len(used_m) < len(cfg['mconvs']) \
            and max(used_m, default=0) < len(cfg['mconvs']) - 1:
        c = copy.deepcopy(h)
        c['cfg']['mconvs'].pop()
        yield c
    used_g = {t[1] for t in ops if t[0] in ('greg', 'grem')}
    if len(cfg['gconvs']) > 1 and max(used_g, default=0) < \
            len(cfg['gconvs']) - 1:
        c = copy.deepcopy(h)
        c['cfg']['gconvs'].pop()
        yield c


# --------------------------------------------------------------------------
# execution inside a world

ROUNDINGS = ['ROUND_HALF_EVEN', 'ROUND_HALF_UP', 'ROUND_HALF_DOWN',
             'ROUND_DOWN', 'ROUND_UP', 'ROUND_CEILING', 'ROUND_FLOOR',
             'ROUND_05UP']
THREADABLE = ('reg', 'rem', 'regtmp', 'remtop', 'regbad', 'greg', 'grem',
              'subreg', 'subrem', 'hreg', 'hrem')
HANG_S = 3.0


class _SimExit(Exception):
    pass


class _SimAbort(BaseException):
    """leaves with-blocks like KeyboardInterrupt does: not an Exception"""


class _StubRaise(Exception):
    pass


class _Method:
    """Stands for `stub.convert`: get() hands out a *fresh* bound method."""

    def __init__(self, stub):
        self.stub = stub

    def get(self):
        return self.stub.convert

    def __call__(self, qty, to_unit):
        return self.stub(qty, to_unit)


def _frac(s):
    from fractions import Fraction
    return Fraction(s)


def _num(x):
    """Canonical exact text of a rational."""
    if x is None:
        return None
    return f"{x.numerator}/{x.denominator}"


def execute(h):
    """Runs in the child. Returns the event log digest, violations, stats."""
    from sim import world
    from sim.core import KnownFindings
    import quantity
    from quantity import Quantity, QuantityMeta, TableConverter, \
        UnitConversionError
    from quantity.money import Money, MoneyConverter
    from decimalfp import Decimal

    kf = KnownFindings()
    cfg, toks = h['cfg'], h['ops']
    clock = world.SimClock(datetime.date(2024, 2, 29))
    world.install_date_shim(clock)

    curs = [Money.register_currency(c) for c in cfg['codes']]
    n_cur = len(curs)
    clock_fault = {}    # id of spec -> fault mode armed for the next read

    class NamedConverter(MoneyConverter):
        """a MoneyConverter is a MoneyConverter, also when sub-classed;
        this one compares the way hand-written classes often do: without
        asking what the other one is (AttributeError against a plain
        converter)"""
        name = 'house rates'

        def __eq__(self, other):
            return self.name == other.name

        __hash__ = object.__hash__

    def build_mconv(spec, scale=1):
        base = curs[spec['base'] % n_cur]
        kind = spec.get('kind', 'none')
        if kind == 'none':
            # (every other one an instance of a sub-class: a converter
            # with a name, say)
            mc = (NamedConverter if spec['base'] % 2 else
                  MoneyConverter)(base)
            validity = None
        else:
            def dflt_date(key=id(spec)):
                mode = clock_fault.pop(key, 0)
                if mode:
                    clock_fault['fired'] = mode
                if mode == 1:
                    raise LookupError('no booking date')
                if mode == 2:
                    return None
                if mode == 3:
                    return '2024-02-29'
                return datetime.date(2024, 2, 29)
            mc = MoneyConverter(base, get_dflt_effective_date=dflt_date)
            validity = {'day': datetime.date(2024, 2, 29),
                        'month': (2024, 2), 'year': 2024}[kind]
        def scaled(j, r):
            # every currency by a factor of its own, so that cross rates
            # change with `scale`, too
            from fractions import Fraction
            f = _frac(r) * (1 if scale == 1 else
                            Fraction(8 + (int(scale * 8) * (int(j) + 1)) % 7,
                                     8))
            return Decimal(f.numerator) / Decimal(f.denominator)
        rates = [(curs[int(j) % n_cur], scaled(j, r), 1)
                 for j, r in sorted(spec['rates'].items())
                 if curs[int(j) % n_cur] is not base] if scale else []
        if rates:
            mc.update(validity, rates)
        return mc

    mconvs = [build_mconv(spec) for spec in cfg['mconvs']]

    def table_arg(tab, salt):
        rows = [(u1, u2, f, o) for (u1, u2), (f, o) in tab.items()]
        form = salt % 5
        if form == 0:
            return tab
        if form == 1:
            return rows
        if form == 2:
            return (r_ for r_ in rows)
        if form == 3:
            return zip(*[[r_[j] for r_ in rows] for j in range(4)]) \
                if rows else iter(())
        return tuple(rows)
    G = QuantityMeta('G', (Quantity,), {})
    gunits = [G.new_unit(f'g{i}') for i in range(3)]
    H = QuantityMeta('H', (Quantity,), {})
    hunits = [H.new_unit(f'h{i}') for i in range(3)]

    class Stub:
        def __init__(self, idx, table):
            self.idx, self.table = idx, table

        def __call__(self, qty, to_unit):
            key = f"{gunits.index(qty.unit)}{gunits.index(to_unit)}"
            e = self.table.get(key)
            if e is None:
                return None
            if e[0] == 'raise':
                raise _StubRaise(self.idx)
            if e[0] == 'expire':
                try:
                    G.remove_converter(self)
                except ValueError:
                    pass
                return None
            if e[0] == 'evict':
                for j in e[1]:
                    try:
                        G.remove_converter(gref(j))
                    except ValueError:
                        pass
                if len(e) > 2 and ganswers[e[2]][
                        (int(key[0]), int(key[1]), 0)][0] == 'none':
                    G.register_converter(gref(e[2]))
                return None
            if e[0] == 'amtf':
                return float(qty.amount) * float(e[1])
            if e[0] == 'via':
                try:
                    inner = qty.convert(gunits[int(e[1])])
                except Exception:       # noqa: cannot get there
                    return None
                return inner.amount * _frac(e[2])
            return qty.amount * _frac(e[1])

        # used as converter in its own right: every access to `obj.convert`
        # makes a new bound-method object, equal to but not identical with
        # the one registered before
        def convert(self, qty, to_unit):
            return self(qty, to_unit)

    class UStub(Stub):
        """a legal converter that cannot be hashed (defines __eq__ only, as
        a callable dataclass or a dict-based rate table does)"""
        __hash__ = None

        def __eq__(self, other):
            return self is other

    gconvs = []
    for k, spec in enumerate(cfg['gconvs']):
        if spec['kind'] == 'table':
            tab = {(us[int(key[0])], us[int(key[1])]):
                   (_frac(e[1]), _frac(e[2]))
                   for us in (gunits, hunits)
                   for key, e in sorted(spec['table'].items())}
            # the table as mapping, as list of 4-tuples, or as a one-shot
            # iterable of them (generator, zip)
            gconvs.append(TableConverter(table_arg(tab, len(str(
                spec['table'])) + k)))
        elif spec['kind'] == 'subtable':
            tab = {(us[int(key[0])], us[int(key[1])]):
                   (_frac(e[1]), _frac(e[2]))
                   for us in (gunits, hunits)
                   for key, e in sorted(spec['table'].items())}
            declined = set()
            for key, e in spec['table'].items():
                if len(e) > 3:
                    a_, b_ = int(key[0]), int(key[1])
                    if e[3] in (0, 2):
                        declined.add((a_, b_))
                    if e[3] in (1, 2):
                        declined.add((b_, a_))

            class RangeTable(TableConverter):
                """valid for part of what its table covers"""
                def __call__(self, qty, to_unit, _declined=declined):
                    us = gunits if qty.unit in gunits else hunits
                    if (us.index(qty.unit), us.index(to_unit)) in _declined:
                        return None
                    return super().__call__(qty, to_unit)
            gconvs.append(RangeTable(table_arg(tab, len(spec['table']) + k)))
        elif spec['kind'] == 'convsub':
            from quantity import Converter

            class HookConverter(Converter):
                """a Converter sub-class that overrides the factor hook
                and leaves what it does not know to the base class"""
                def __init__(self, table):
                    self.rates = {key: _frac(e[1])
                                  for key, e in table.items()
                                  if e[0] == 'amt'}

                def _get_factor(self, qty, to_unit):
                    us = gunits if qty.unit in gunits else hunits
                    f = self.rates.get(
                        f"{us.index(qty.unit)}{us.index(to_unit)}")
                    if f is None:
                        return super()._get_factor(qty, to_unit)
                    return qty.amount * f
            gconvs.append(HookConverter(spec['table']))
        elif spec['kind'] == 'method':
            gconvs.append(_Method(Stub(k, spec['table'])))
        elif spec['kind'] == 'unhashable':
            gconvs.append(UStub(k, spec['table']))
        else:
            gconvs.append(Stub(k, spec['table']))
    amount = _frac(cfg['amount'])
    moneys = [Money(amount, c) for c in curs]
    gq = [G(_frac(cfg['gamount']), u) for u in gunits]
    # the same again with amount zero: zero is an amount, too (a converter
    # answering 0 has answered)
    # ... and with a big amount (the sixth decimal of a rate shows in cents)
    money_sets = [moneys, [Money(0, c) for c in curs],
                  [Money(amount * 1000 + 7, c) for c in curs]]
    gq_sets = [gq, [G(0, u) for u in gunits]]
    hq_sets = [[H(_frac(cfg['gamount']), u) for u in hunits],
               [H(0, u) for u in hunits]]
    pairs = [(a, b, k) for k in (0, 1, 2) for a in range(n_cur)
             for b in range(n_cur) if a != b]
    gpairs = [(a, b, k) for k in (0, 1) for a in range(3) for b in range(3)
              if a != b]

    # answers of every converter when called directly (the library's own
    # arithmetic; the model only selects *which* converter answers)
    def direct(mc, a, b, k):
        try:
            amt = mc(money_sets[k][a], curs[b])
        except UnitConversionError:
            return ('exc', 'UnitConversionError')
        if amt is None:
            # "no rate" spelled as None: for the user of convert() that
            # still is 'this converter cannot convert'
            return ('exc', 'UnitConversionError')
        return ('ok', _num(Money(amt, curs[b]).amount), _num(amt))

    def safely(fn, *a):
        try:
            return fn(*a)
        except Exception as e:      # noqa: cannot be judged
            return ('unjudged', type(e).__name__)

    answers = [{p: safely(direct, mc, *p) for p in pairs} for mc in mconvs]

    def gdirect(gc, a, b, k):
        spec = getattr(gc, 'table', None)
        if spec is None and isinstance(gc, _Method):
            spec = gc.stub.table
        if spec is not None and spec.get(f"{a}{b}", [None])[0] == 'expire':
            return ('expire',)      # not called here: it would unregister
        if spec is not None and spec.get(f"{a}{b}", [None])[0] == 'evict':
            return ('evict', list(spec[f"{a}{b}"][1])) + tuple(
                spec[f"{a}{b}"][2:])
        if spec is not None and spec.get(f"{a}{b}", [None])[0] == 'via':
            # depends on what is registered when it is asked
            return ('via', int(spec[f"{a}{b}"][1]), spec[f"{a}{b}"][2])
        try:
            amt = gc(gq_sets[k][a], gunits[b])
        except _StubRaise:
            return ('raise',)
        if amt is None or amt is NotImplemented:
            # no amount
            return ('none',)
        if isinstance(amt, float):
            from fractions import Fraction
            amt = Fraction(amt)
        return ('ok', _num(amt))

    ganswers = [{p: safely(gdirect, gc, *p) for p in gpairs}
                for gc in gconvs]

    # the second type uses the same tables with the same amounts: what a
    # table answers there is what it answers for the first type
    hanswers = ganswers

    def gref(i):
        g = gconvs[i]
        return g.get() if isinstance(g, _Method) else g

    def same_conv(observed, conv):
        if isinstance(conv, _Method):
            return observed == conv.get()
        return observed is conv

    # types derived from G and from Money: independent types with
    # registries of their own
    SubG = QuantityMeta('SubG', (G,), {})
    SubMoney = type(Money)('SubMoney', (Money,), {})

    # ---- model
    mstack = []     # indices into mconvs, bottom .. top
    glist = []      # indices into gconvs, registration order
    hlist = []      # the same for H (table converters only)
    sub_g = []      # the same for SubG ...
    sub_m = []      # ... and SubMoney

    faults = {}
    probes = {}
    violations = []
    known = {}
    log = []
    seen_by_state = {}

    def bump(d, k, n=1):
        d[k] = d.get(k, 0) + n

    class Stop(Exception):
        pass

    def violate(oracle, cls, step, **facts):
        fid = kf.match(PROP, oracle, dict(facts, **{'class': cls}))
        if fid:
            bump(known, fid)
            return
        violations.append(dict(facts, oracle=oracle, step=step,
                               **{'class': cls}))
        raise Stop()

    def expected_money(p):
        if not mstack:
            return ('exc', 'UnitConversionError')
        top = mstack[-1]
        return (temp_answers[top - 1000] if top >= 1000 else answers[top])[p]

    def conv_exp(e):
        return e[:2]

    expired = []
    evicted = []
    enlisted = []

    def string_form(p):
        sf = cfg.get('string_form', 0)
        return sf == 2 or (sf == 1 and (p[0] + 2 * p[1] + p[2]) % 3 == 0)

    def expected_generic(p, depth=0):
        """first converter, most recent first, that returns an amount."""
        skipped = 0
        gone = set()
        for gi in reversed(list(glist)):
            if gi in gone:
                # taken out of service by a converter consulted before it
                continue
            a = ganswers[gi][p]
            if a[0] == 'evict':
                # consulted, unregisters others (and itself, maybe),
                # declines; the conversion goes on with the next older
                # converter that is still registered
                for j in a[1]:
                    if j in glist and j not in gone:
                        gone.add(j)
                        expired.append(j)
                        if j != gi:
                            evicted.append(j)
                if len(a) > 2 and ganswers[a[2]][(p[0], p[1], 0)][0] == \
                        'none':
                    enlisted.append(a[2])
                skipped += 1
                continue
            if a[0] == 'expire':
                # consulted, unregisters itself, declines; the conversion
                # goes on with the next older converter
                expired.append(gi)
                skipped += 1
                continue
            if a[0] == 'none':
                skipped += 1
                continue
            if a[0] == 'via':
                # it asks for the conversion to the third unit first
                if depth:
                    return ('unjudged',), skipped
                bump(probes, 'converter_asked_the_library_itself')
                inner, _s = expected_generic((p[0], a[1], p[2]), depth + 1)
                if inner[0] == 'unjudged':
                    return ('unjudged',), skipped
                if inner[0] != 'ok':
                    skipped += 1
                    continue
                from fractions import Fraction
                return ('ok', _num(Fraction(inner[1]) * _frac(a[2]))), \
                    skipped
            if a[0] in ('raise', 'unjudged'):
                return ('unjudged',), skipped
            return a, skipped
        return ('exc', 'UnitConversionError'), skipped

    held_exceptions = []

    def observe(fn):
        # C12 names no exception type: "cannot convert" is any exception.
        # The exception objects are kept (as an application that collects
        # its errors does): with them their tracebacks and the frames of
        # the failed conversions stay alive for the rest of the history.
        try:
            r = fn()
        except _StubRaise as e:
            held_exceptions.append(e)
            return ('stubraise',)
        except Exception as e:     # noqa
            held_exceptions.append(e)
            return ('exc', 'UnitConversionError')
        return ('ok', r)

    def sweep(step):
        """Every fifth sweep runs in another thread (started and joined at
        once - no concurrency, the schedule stays sequential): the registry
        is process-wide, a converter registered here is active there."""
        if step % 5 != 2:
            return _sweep(step)
        import threading
        box = {}

        def target():
            try:
                box['vec'] = _sweep(step)
            except BaseException as e:      # noqa: handed to the caller
                box['exc'] = e
        th = threading.Thread(target=target)
        th.start()
        th.join()
        bump(probes, 'sweep_in_another_thread')
        if 'exc' in box:
            raise box['exc']
        return box['vec']

    def _sweep(step):
        # --- registered converters, most recent first, by identity
        obs_m = list(Money.registered_converters())
        exp_m = list(reversed(mstack))

        def is_entry(x, i):
            if i >= 1000:       # a converter nobody else refers to
                return isinstance(x, MoneyConverter) and \
                    all(x is not m for m in mconvs)
            return x is mconvs[i]
        if len(obs_m) != len(exp_m) or \
                any(not is_entry(x, i) for x, i in zip(obs_m, exp_m)):
            violate('money_stack', 'list', step,
                    expected=list(reversed(mstack)),
                    observed=[next((k for k, m in enumerate(mconvs)
                                    if m is x), -1) for x in obs_m])
        obs_g = list(G.registered_converters())
        exp_g = [gconvs[i] for i in reversed(glist)]
        if len(obs_g) != len(exp_g) or \
                any(not same_conv(x, y) for x, y in zip(obs_g, exp_g)):
            violate('generic_list', 'list', step,
                    expected=list(reversed(glist)),
                    observed=[next((i for i, g in enumerate(gconvs)
                                    if same_conv(x, g)), -1)
                              for x in obs_g])
        obs_sg = list(SubG.registered_converters())
        exp_sg = [gconvs[i] for i in reversed(sub_g)]
        obs_sm = list(SubMoney.registered_converters())
        exp_sm = [mconvs[i] for i in reversed(sub_m)]
        if len(obs_sg) != len(exp_sg) or \
                any(not same_conv(x, y) for x, y in zip(obs_sg, exp_sg)) or \
                len(obs_sm) != len(exp_sm) or \
                any(x is not y for x, y in zip(obs_sm, exp_sm)):
            violate('derived_type_list', 'list', step,
                    expected=[list(reversed(sub_g)), list(reversed(sub_m))],
                    observed=[len(obs_sg), len(obs_sm)])
        vec = []
        key_at_start = (tuple(mstack), tuple(glist), tuple(hlist))
        # --- money conversions, every ordered pair
        for p in pairs:
            a, b, k = p
            o = observe(lambda: _num(
                money_sets[k][a].convert(curs[b]).amount))
            e = conv_exp(expected_money(p))
            vec.append(o)
            if e[0] == 'unjudged':
                continue
            if mstack and e[0] == 'exc':
                bump(probes, 'top_converter_lacks_rate')
            if o != e:
                # which converter (if any) would have produced it?
                who = [i for i, ans in enumerate(answers)
                       if conv_exp(ans[p]) == o]
                violate('money_convert', 'value', step, pair=list(p),
                        expected=list(e), observed=list(o),
                        model_stack=list(mstack), answered_by=who)
            if string_form(p):
                o2 = observe(lambda: _num(
                    Money(str(money_sets[k][a]), curs[b]).amount))
                vec.append(o2)
                bump(probes, 'converted_by_string_and_unit')
                if o2 != e:
                    violate('money_convert', 'string_form', step,
                            pair=list(p), expected=list(e),
                            observed=list(o2), model_stack=list(mstack))
        # --- +, <, == across currencies (first pair only)
        a, b = pairs[0][:2]
        e = expected_money((b, a, 0))   # other converted to self.unit
        if e[0] == 'unjudged':
            e = ('exc', None)       # nothing below will match 'ok'
            skip_ops = True
        else:
            skip_ops = False
        if e[0] == 'ok':
            e = ('ok', e[2])         # the raw (unquantised) equivalent
        o = observe(lambda: _num((moneys[a] + moneys[b]).amount))
        vec.append(o)
        if e[0] == 'ok':
            exp = ('ok', _num(Money(moneys[a].amount + _frac(e[1]),
                                    curs[a]).amount))
        else:
            exp = e
        if o != exp and not skip_ops:
            violate('money_add', 'value', step, pair=[a, b],
                    expected=list(exp), observed=list(o),
                    model_stack=list(mstack))
        # adding a zero amount of another currency needs the converter, too
        ez = expected_money((b, a, 1))
        if ez[0] != 'unjudged':
            o = observe(lambda: _num((moneys[a] + money_sets[1][b]).amount))
            vec.append(o)
            expz = ('ok', _num(Money(moneys[a].amount + _frac(ez[2]),
                                     curs[a]).amount)) \
                if ez[0] == 'ok' else ez[:2]
            if o != expz:
                violate('money_add', 'zero', step, pair=[a, b],
                        expected=list(expz), observed=list(o),
                        model_stack=list(mstack))
        # a - b and a / b go through the same implicit conversion
        o = observe(lambda: _num((moneys[a] - moneys[b]).amount))
        vec.append(o)
        if e[0] == 'ok':
            exp = ('ok', _num(Money(moneys[a].amount - _frac(e[1]),
                                    curs[a]).amount))
        else:
            exp = e
        if o != exp and not skip_ops:
            violate('money_sub', 'value', step, pair=[a, b],
                    expected=list(exp), observed=list(o),
                    model_stack=list(mstack))
        o = observe(lambda: _num(moneys[a] / moneys[b]))
        vec.append(o)
        exp = ('ok', _num(moneys[a].amount / _frac(e[1]))) \
            if e[0] == 'ok' else e
        if o != exp and not skip_ops:
            violate('money_div', 'value', step, pair=[a, b],
                    expected=list(exp), observed=list(o),
                    model_stack=list(mstack))
        o = observe(lambda: moneys[a] < moneys[b])
        vec.append(o)
        exp = ('ok', moneys[a].amount < _frac(e[1])) if e[0] == 'ok' else e
        if o != exp and not skip_ops:
            violate('money_lt', 'value', step, pair=[a, b],
                    expected=list(exp), observed=list(o),
                    model_stack=list(mstack))
        for opn, fn in (('>', lambda x, y: x > y),
                        ('<=', lambda x, y: x <= y),
                        ('>=', lambda x, y: x >= y)):
            o = observe(lambda: fn(moneys[a], moneys[b]))
            vec.append(o)
            exp = ('ok', fn(moneys[a].amount, _frac(e[1]))) \
                if e[0] == 'ok' else e
            if o != exp and not skip_ops:
                violate('money_cmp', 'value', step, pair=[a, b], op=opn,
                        expected=list(exp), observed=list(o),
                        model_stack=list(mstack))
        o = observe(lambda: moneys[a] == moneys[b])
        vec.append(o)
        if e[0] == 'ok':
            exp = ('ok', moneys[a].amount == _frac(e[1]))
        elif not mstack:
            exp = ('ok', False)
        else:
            exp = None      # top converter lacks the rate: not judged
        if exp is not None and o != exp and not skip_ops:
            violate('money_eq', 'value', step, pair=[a, b],
                    expected=list(exp), observed=list(o),
                    model_stack=list(mstack))
        # --- generic conversions
        for p in gpairs:
            a, b, k = p
            o = observe(lambda: _num(
                gq_sets[k][a].convert(gunits[b]).amount))
            vec.append(o)
            del expired[:]
            del evicted[:]
            del enlisted[:]
            e, skipped = expected_generic(p)
            for gi in expired:
                if gi in glist:
                    glist.remove(gi)
                    bump(faults, 'converter_unregistered_another_mid_lookup'
                         if gi in evicted else
                         'converter_unregistered_itself_mid_lookup')
            for gi in enlisted:
                if gi not in glist:
                    glist.append(gi)
                    bump(faults, 'converter_registered_another_mid_lookup')
            if e[0] == 'unjudged':
                bump(probes, 'stub_raised_when_consulted')
                continue
            if skipped and e[0] == 'ok':
                bump(probes, 'first_non_none_skipped_a_converter')
            if o != e:
                who = [i for i, ans in enumerate(ganswers) if ans[p] == o]
                violate('generic_convert', 'value', step, pair=list(p),
                        expected=list(e), observed=list(o),
                        model_list=list(glist), answered_by=who)
        # --- the second generic type: its own list, although the
        # converter objects are shared with G
        obs_h = list(H.registered_converters())
        if len(obs_h) != len(hlist) or any(
                x is not gconvs[i] for x, i in zip(obs_h, reversed(hlist))):
            violate('generic_list', 'second_type', step,
                    expected=list(reversed(hlist)), observed=len(obs_h))
        for p in gpairs if hlist else ():
            a, b, k = p
            o = observe(lambda: _num(
                hq_sets[k][a].convert(hunits[b]).amount))
            vec.append(o)
            e = ('exc', 'UnitConversionError')
            for gi in reversed(hlist):
                ans = hanswers[gi][p]
                if ans[0] == 'none':
                    continue
                e = ans if ans[0] == 'ok' else ('unjudged',)
                break
            if e[0] != 'unjudged' and o != e:
                violate('generic_convert', 'second_type', step, pair=list(p),
                        expected=list(e), observed=list(o),
                        model_list=list(hlist))
            if e[0] != 'unjudged' and string_form(p):
                o2 = observe(lambda: _num(
                    H(str(hq_sets[k][a]), hunits[b]).amount))
                vec.append(o2)
                if o2 != e:
                    violate('generic_convert', 'string_form', step,
                            pair=list(p), expected=list(e),
                            observed=list(o2), model_list=list(hlist))
        # --- same registrations => same behaviour (restoration); a sweep
        # during which a converter retired spans two states and is skipped
        key = (tuple(mstack), tuple(glist), tuple(hlist))
        if key != key_at_start:
            return vec
        prev = seen_by_state.get(key)
        if prev is None:
            seen_by_state[key] = (step, vec)
        else:
            bump(probes, 'state_revisited')
            if prev[1] != vec:
                violate('restore', 'value', step, first_seen_step=prev[0],
                        state=[list(mstack), list(glist)])
        return vec

    match = {}
    stack = []
    for i, t in enumerate(toks):
        if t[0] == 'enter':
            stack.append(i)
        elif t[0] == 'leave' and stack:
            match[stack.pop()] = i
    for i in stack:
        match[i] = len(toks)

    def after(i, outcome):
        vec = sweep(i)
        log.append([i, toks[i] if i < len(toks) else ['end'], outcome, vec])

    def step(i, depth):
        """Execute one non-block token."""
        t = toks[i]
        op = t[0]
        if op == 'reg':
            c = t[1] % len(mconvs)
            Money.register_converter(mconvs[c])
            if c in mstack:
                bump(probes, 'duplicate_on_money_stack')
            mstack.append(c)
            after(i, 'ok')
        elif op == 'rem':
            c = t[1] % len(mconvs)
            o = observe(lambda: Money.remove_converter(mconvs[c]))
            if mstack and mstack[-1] == c:
                mstack.pop()
                if o[0] != 'ok':
                    violate('money_remove', 'top_refused', i, conv=c,
                            observed=list(o))
            else:
                bump(faults, 'rejected_removal')
                if mstack:
                    bump(probes, 'rejected_removal_nonempty_stack')
                if o[0] == 'ok':
                    violate('money_remove', 'non_top_accepted', i, conv=c,
                            model_stack=list(mstack))
            after(i, o[0])
        elif op in ('regtmp', 'swaptmp'):
            # a converter built on the spot, registered directly and not
            # kept by the caller: the registry is its only referrer
            if op == 'swaptmp' and mstack and mstack[-1] >= 1000:
                Money.remove_converter(
                    next(iter(Money.registered_converters())))
                mstack.pop()
                bump(probes, 'short_lived_converter_replaced_at_once')
            c = t[1] % len(mconvs)
            k_ = t[2] if len(t) > 2 else 0
            from fractions import Fraction
            scale = 0 if k_ == 5 else Fraction(8 + k_, 8)
            import gc
            gc.collect()
            Money.register_converter(build_mconv(cfg['mconvs'][c], scale))
            # what it has to answer is asked of a twin that stays alive
            # (the registered one may be freed and its address used again)
            twin = build_mconv(cfg['mconvs'][c], scale)
            twins.append(twin)
            temp_specs.append((c, scale))
            temp_answers.append({p: safely(direct, twin, *p)
                                 for p in pairs})
            mstack.append(1000 + len(temp_answers) - 1)
            bump(probes, 'converter_referenced_by_registry_only')
            after(i, 'ok')
        elif op == 'remtop':
            top = next(iter(Money.registered_converters()), None)
            if top is None or not mstack:
                after(i, 'nothing')
            else:
                o = observe(lambda: Money.remove_converter(top))
                top = None
                mstack.pop()
                if o[0] != 'ok':
                    violate('money_remove', 'top_refused', i,
                            observed=list(o))
                after(i, o[0])
        elif op == 'rounding':
            import decimalfp
            decimalfp.set_dflt_rounding_mode(
                getattr(decimalfp.ROUNDING, ROUNDINGS[t[1] % len(ROUNDINGS)]))
            # from now on every converter answers what a converter with
            # the same rates, made now, answers
            answers[:] = [{p: safely(direct, build_mconv(spec), *p)
                           for p in pairs} for spec in cfg['mconvs']]
            for j_, (c_, scale_) in enumerate(temp_specs):
                temp_answers[j_] = {p: safely(
                    direct, build_mconv(cfg['mconvs'][c_], scale_), *p)
                    for p in pairs}
            seen_by_state.clear()
            bump(faults, 'rounding_mode_switched')
            after(i, 'ok')
        elif op == 'manytypes':
            # other parts of the program declare their own types, look at
            # their (empty) converter lists, register and use a converter
            base_n = len(other_types)
            for j in range(t[1]):
                oc = QuantityMeta(f'O{base_n + j}', (Quantity,), {})
                ou = [oc.new_unit(f'o{base_n + j}a'),
                      oc.new_unit(f'o{base_n + j}b')]
                list(oc.registered_converters())
                if j % 3 == 0:
                    oc.register_converter(TableConverter(
                        {(ou[0], ou[1]): (2, 0)}))
                    (3 * ou[0]).convert(ou[1])
                other_types.append(oc)
            bump(probes, 'other_types_%d' % (len(other_types) // 100 * 100))
            after(i, 'ok')
        elif op == 'regn':
            c = t[1] % len(mconvs)
            for _ in range(t[2]):
                Money.register_converter(mconvs[c])
                mstack.append(c)
            bump(probes, 'deep_stack_%d' % (len(mstack) // 100 * 100))
            after(i, 'ok')
        elif op == 'remn':
            done = 0
            for _ in range(t[1]):
                if not mstack:
                    break
                top = next(iter(Money.registered_converters()), None)
                o = observe(lambda: Money.remove_converter(top))
                if o[0] != 'ok':
                    violate('money_remove', 'top_refused', i,
                            depth=len(mstack), observed=list(o))
                mstack.pop()
                done += 1
            top = None
            after(i, done)
        elif op == 'regbad':
            bad = [None, 17, gref(0)][t[1] % 3]
            o = observe(lambda: Money.register_converter(bad))
            bump(faults, 'rejected_registration')
            if o[0] == 'ok':
                violate('money_register', 'non_converter_accepted', i)
            after(i, o[0])
        elif op == 'greg':
            g = t[1] % len(gconvs)
            o = observe(lambda: G.register_converter(gref(g)))
            if o[0] != 'ok':
                # any callable is a legal converter for such a type
                violate('generic_register', 'refused', i, conv=g,
                        kind=cfg['gconvs'][g]['kind'])
            if g in glist:
                bump(probes, 'generic_registered_again')
            else:
                glist.append(g)
            after(i, 'ok')
        elif op == 'grem':
            g = t[1] % len(gconvs)
            o = observe(lambda: G.remove_converter(gref(g)))
            if g in glist:
                glist.remove(g)
                if o[0] != 'ok':
                    violate('generic_remove', 'refused', i, conv=g)
            else:
                bump(faults, 'rejected_removal_generic')
                if o[0] == 'ok':
                    violate('generic_remove', 'absent_accepted', i, conv=g)
            after(i, o[0])
        elif op in ('hreg', 'hrem'):
            g = t[1] % len(gconvs)
            if cfg['gconvs'][g]['kind'] not in ('table', 'subtable'):
                after(i, 'not-a-table')
            elif op == 'hreg':
                H.register_converter(gconvs[g])
                if g not in hlist:
                    hlist.append(g)
                bump(probes, 'converter_shared_between_two_types')
                after(i, 'ok')
            else:
                o = observe(lambda: H.remove_converter(gconvs[g]))
                if (g in hlist) != (o[0] == 'ok'):
                    violate('generic_remove', 'second_type', i, conv=g,
                            observed=list(o))
                if g in hlist:
                    hlist.remove(g)
                after(i, o[0])
        elif op == 'subreg':
            bump(probes, 'converter_registered_on_a_derived_type')
            if t[1] % 2:
                c = t[2] % len(mconvs)
                SubMoney.register_converter(mconvs[c])
                sub_m.append(c)
            else:
                g = t[2] % len(gconvs)
                SubG.register_converter(gref(g))
                if g not in sub_g:
                    sub_g.append(g)
            after(i, 'ok')
        elif op == 'subrem':
            if t[1] % 2:
                c = t[2] % len(mconvs)
                o = observe(lambda: SubMoney.remove_converter(mconvs[c]))
                good = bool(sub_m) and sub_m[-1] == c
                if good:
                    sub_m.pop()
            else:
                g = t[2] % len(gconvs)
                o = observe(lambda: SubG.remove_converter(gref(g)))
                good = g in sub_g
                if good:
                    sub_g.remove(g)
            if good != (o[0] == 'ok'):
                violate('derived_type_remove', 'refused' if good
                        else 'accepted', i, observed=list(o))
            after(i, o[0])
        elif op == 'raise':
            if depth == 0:
                return      # nothing to leave
            bump(faults, 'leave_by_exception')
            e = _SimAbort() if len(t) > 2 and t[2] else _SimExit()
            if isinstance(e, _SimAbort):
                bump(faults, 'leave_by_base_exception')
            e.levels = t[1]
            raise e
        elif op == 'unsafe':
            a, b, lv = t[1] % n_cur, t[2] % n_cur, t[3]
            if a == b:
                b = (a + 1) % n_cur
            try:
                moneys[a].convert(curs[b])
            except Exception as e:
                if depth == 0:
                    after(i, 'raised-at-top')
                    return
                bump(faults, 'conversion_raised_inside_block')
                e.levels = lv
                raise
            after(i, 'ok')
        elif op == 'leave':
            pass    # unmatched at top level: no-op
        else:
            raise core.HarnessError(f"unknown token {t}")

    next_in_thread = [False]
    other_types = []
    twins, temp_answers, temp_specs = [], [], []

    def in_thread(i, fn):
        """Run fn in a fresh thread while this one waits.  A call that
        does not come back (thread alive and not moving for HANG_S and
        again for HANG_S / 2) is a violation: the operation neither
        happened nor was it refused."""
        import sys
        import threading
        box = {}

        def work():
            try:
                fn()
            except BaseException as e:      # noqa: handed to the caller
                box['exc'] = e
        th = threading.Thread(target=work, daemon=True)
        th.start()
        th.join(HANG_S)
        if th.is_alive():
            def where():
                f = sys._current_frames().get(th.ident)
                return None if f is None else (id(f), f.f_lasti)
            w0 = where()
            th.join(HANG_S / 2)
            if th.is_alive() and where() != w0:
                th.join(4 * HANG_S)
            if th.is_alive():
                violate('thread', 'call_never_returned', i,
                        token=list(toks[i]))
                raise Stop()
        bump(probes, 'registry_call_from_another_thread')
        if 'exc' in box:
            raise box['exc']

    def block(i, end, depth):
        """Execute tokens[i:end]."""
        while i < end:
            t = toks[i]
            if t[0] == 'thread':
                next_in_thread[0] = True
                i += 1
                continue
            if t[0] != 'enter':
                if next_in_thread[0] and t[0] in THREADABLE:
                    next_in_thread[0] = False
                    in_thread(i, lambda: step(i, depth))
                else:
                    next_in_thread[0] = False
                    step(i, depth)
                i += 1
                continue
            next_in_thread[0] = False
            j = match[i]
            c = t[1] % len(mconvs)
            body_exc = None
            exc = None
            entered = False
            clock_fault.pop('fired', None)
            if len(t) > 2 and t[2]:
                clock_fault[id(cfg['mconvs'][c])] = t[2]
            try:
                with mconvs[c]:
                    entered = True
                    clock_fault.pop(id(cfg['mconvs'][c]), None)
                    if c in mstack:
                        bump(probes, 'duplicate_on_money_stack')
                    mstack.append(c)
                    after(i, 'entered')
                    try:
                        block(i + 1, j, depth + 1)
                    except Stop:
                        raise
                    except (Exception, _SimAbort) as e:
                        body_exc = e
                        raise
            except Stop:
                raise
            except (Exception, _SimAbort) as e:
                exc = e
            clock_fault.pop(id(cfg['mconvs'][c]), None)
            if not entered:
                # the with-statement failed on entry (the date callable was
                # consulted and failed): the block was never entered and
                # __exit__ will not run, so nothing may stay registered
                if not clock_fault.pop('fired', None):
                    violate('money_enter', 'refused', i, conv=c,
                            observed=type(exc).__name__)
                bump(faults, 'with_statement_failed_on_entry')
                after(i, 'enter-failed')
                i = j + 1
                continue
            exit_raised = exc is not None and exc is not body_exc
            if mstack and mstack[-1] == c:
                mstack.pop()
                if exit_raised:
                    violate('money_exit', 'top_refused', j, conv=c,
                            observed=type(exc).__name__)
            else:
                bump(faults, 'exit_not_on_top')
                if not exit_raised:
                    violate('money_exit', 'non_top_accepted', j, conv=c,
                            model_stack=list(mstack))
            if body_exc is not None:
                lv = getattr(body_exc, 'levels', 1)
                if lv >= 2:
                    bump(probes, 'exceptional_exit_through_2_levels')
            outcome = ('exc-exit' if body_exc is not None else 'exit') + \
                ('+exitraised' if exit_raised else '')
            after(min(j, len(toks)), outcome)
            if body_exc is not None:
                lv = getattr(body_exc, 'levels', 1)
                if lv > 1 and depth > 0:
                    body_exc.levels = lv - 1
                    raise body_exc
            i = j + 1

    try:
        # a table converter answers for the pairs its table covers (in
        # either direction) - however the table was handed over
        for gi_, spec_ in enumerate(cfg['gconvs']):
            if spec_['kind'] not in ('table', 'subtable'):
                continue
            for p_ in gpairs:
                a_, b_, _k = p_
                e_ = spec_['table'].get(f"{a_}{b_}")
                fwd = e_ is not None
                e_ = e_ or spec_['table'].get(f"{b_}{a_}")
                if e_ is None:
                    # ... and only for those
                    if ganswers[gi_][p_][0] == 'ok':
                        violate('generic_convert', 'table_answers_what_it_'
                                'does_not_cover', -1, conv=gi_,
                                pair=list(p_))
                    continue
                declined = spec_['kind'] == 'subtable' and len(e_) > 3 and \
                    (e_[3] == 2 or (e_[3] == 0) == fwd)
                if not declined and ganswers[gi_][p_][0] == 'none':
                    violate('generic_convert', 'table_declines_what_it_'
                            'covers', -1, conv=gi_, pair=list(p_))
        sweep(-1)
        try:
            block(0, len(toks), 0)
        except Stop:
            raise
        except (Exception, _SimAbort) as e:
            if not isinstance(e, (_SimExit, _SimAbort,
                                  UnitConversionError)):
                raise
        # all blocks left
        after(len(toks), 'end')
    except Stop:
        pass
    syms = ''.join(_sym(t) for t in toks[:4])
    return {'digest': core.digest(log), 'violations': violations,
            'known': known, 'faults': faults, 'probes': probes,
            'ops': len(log),
            'reach': {'prefix4': [syms[:2 * k] for k in range(1, 5)
                                  if len(toks) >= k],
                      'model_states': [core.digest(k) for k in
                                       [[list(x) for x in key_]
                                        for key_ in seen_by_state]][:40]},
            'log': log if h.get('want_log') else None}


def _sym(t):
    """2-char symbol of a token for the prefix-coverage measure."""
    op = t[0]
    if op in ('enter', 'reg', 'rem'):
        return {'enter': 'E', 'reg': 'R', 'rem': 'X'}[op] + str(t[1] % 3)
    if op in ('regtmp', 'swaptmp'):
        return 'T' + str(t[1] % 3)
    if op == 'remtop':
        return 'P.'
    if op == 'leave':
        return 'L.'
    if op == 'raise':
        return '!' + str(min(t[1], 2))
    if op == 'regbad':
        return 'B.'
    if op == 'unsafe':
        return 'U.'
    if op in ('greg', 'grem'):
        return {'greg': 'g', 'grem': 'x'}[op] + str(t[1] % 3)
    if op in ('subreg', 'subrem'):
        return {'subreg': 's', 'subrem': 'z'}[op] + str(t[1] % 2)
    if op in ('hreg', 'hrem'):
        return {'hreg': 'h', 'hrem': 'y'}[op] + str(t[1] % 3)
    if op == 'thread':
        return 't.'
    if op in ('regn', 'remn'):
        return {'regn': 'N', 'remn': 'n'}[op] + '.'
    if op == 'manytypes':
        return 'M.'
    if op == 'rounding':
        return 'r.'
    return '??'


# --------------------------------------------------------------------------

def judge(h):
    res = core.run_in_child(execute, h)
    res['worlds'] = 1
    res['hist_digest'] = core.digest([h['cfg'], h['ops']])
    f = res['faults']
    res['nontrivial'] = bool(sum(f.values()) >= 1 and res['ops'] >= 4)
    return res


def run_one(seed, run, tier):
    h = gen(seed, run, tier)
    res = judge(h)
    res['sample'] = h if run < 3 else None
    res.pop('log', None)
    return res


RULE = ("run i draws, from random.Random(splitmix64(VERIF_SEED,'C12',i)), a "
        "configuration (2-4 currencies, 3-4 money converters with pairwise "
        "different rates - constant or dated with a configured date "
        "callable, twins, converters lacking rates -, 3 generic converters: "
        "scripted stubs (also unhashable, bound methods, retiring ones, "
        "ones that unregister OTHER converters - and register a third - "
        "while they are consulted), "
        "real TableConverters and TableConverter sub-classes that decline) "
        "and a token list of <=30 ops over {enter c (optionally with the "
        "date callable failing on entry), leave, raise(levels, also "
        "BaseException), register c, remove c, register a temporary "
        "converter, remove the top, register non-converter, conversion that "
        "raises inside a block, generic register/remove, register/remove on "
        "types derived from Money and from the generic type, 'the next call "
        "is made from another thread'}, the first tokens enumerating all "
        "short prefixes, executed with genuine nested with-statements; "
        "after every token the converter lists and conversions for every "
        "ordered unit pair (by convert(), by the operators and - per-run "
        "knob - by Quantity(string, unit)) are compared with the RefStack "
        "model. A history "
        "is distinct by the digest of (configuration, tokens) and "
        "non-trivial when >=1 fault actually fired (exceptional exit, "
        "rejected removal/registration, __exit__ not on top, conversion "
        "raising in a block) and >=4 observation sweeps followed.")
ASSUMPTIONS = [
    "no concurrent schedules (no property quantifies over them): calls "
    "from other threads are made one at a time, the calling thread waits; "
    "a call that does not return within 4.5 s without its thread moving is "
    "reported as a hang",
    "python runs without -O (rejections implemented as assert stay active)",
    "the arithmetic of one converter called directly is trusted (C09/C10/"
    "C14 are not claimed); the model only selects which converter answers",
    "whether an exception leaving a with-block is re-raised, and what a "
    "raising user converter does to convert(), are recorded, not judged",
]
REAL = ["quantity (Money, MoneyMeta, MoneyConverter, QuantityMeta, Quantity."
        "equiv_amount/convert, TableConverter) from /repo/src",
        "decimalfp", "CPython with-statement / exception machinery"]
STUBS = ["system date (SimClock via date shim; constant in this check)",
         "user-supplied generic converters (scripted callables)",
         "with-block bodies (the simulator's interpreter)"]


_PREFIXES = {}


def _prefix_list(n=3):
    """Quick tier: all 4 755 sequences of length <= 3; thorough tier: all
    81 415 of length <= 4 (a 600 s batch runs about that many)."""
    if n not in _PREFIXES:
        _PREFIXES[n] = sorted(_possible_prefixes(n),
                              key=lambda p: (len(p), p))
    return _PREFIXES[n]


def _split(p):
    return [p[i:i + 2] for i in range(0, len(p), 2)]


def _possible_prefixes(max_len, max_depth=MAX_DEPTH):
    """All token-symbol sequences of length <= max_len the generator's
    grammar allows (3 converter symbols per kind; a raise of k levels is
    followed by its k block delimiters)."""
    out = set()
    flat = ['R0', 'R1', 'R2', 'X0', 'X1', 'X2', 'B.', 'g0', 'g1', 'g2',
            'x0', 'x1', 'x2']

    def rec(prefix, depth, forced):
        if prefix:
            out.add(''.join(prefix))
        if len(prefix) >= max_len:
            return
        if forced:
            rec(prefix + ['L.'], depth - 1, forced - 1)
            return
        for t in flat:
            rec(prefix + [t], depth, 0)
        if depth < max_depth:
            for t in ('E0', 'E1', 'E2'):
                rec(prefix + [t], depth + 1, 0)
        if depth >= 1:
            rec(prefix + ['L.'], depth - 1, 0)
            rec(prefix + ['U.'], depth, 0)
            rec(prefix + ['!1'], depth, 1)
            if depth >= 2:
                rec(prefix + ['!2'], depth, 2)
    rec([], 0, 0)
    return out


def extra_coverage(results, reach):
    """Which fraction of all op-symbol sequences of length <= 3 occurred as
    the prefix of an executed history (converter indices taken modulo 3,
    raise levels capped at 2)."""
    seen = reach.get('prefix4', set())
    cov = {}
    for n in (1, 2, 3, 4):
        poss = {p for p in _possible_prefixes(n) if len(p) == 2 * n}
        got = {p for p in seen if len(p) == 2 * n}
        cov[f'len{n}'] = {'seen': len(got & poss), 'possible': len(poss)}
    cov['distinct_prefixes_len_le4'] = len(seen)
    return {'prefix_coverage': cov}
