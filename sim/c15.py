"""C15 - directory coherence after any history of declarations.

System: the real global directories (symbol map, per-type unit maps, term map,
type registry) in a world forked from the bare template or from the template
with quantity.predefined loaded.  Workload: intents resolved against RefDir
into concrete declarations (valid and must-reject ones).  Oracle: RefDir,
checked over *everything declared so far* after every step.
"""
from __future__ import annotations

from fractions import Fraction

from sim import core, decl

PROP = 'C15'
VARIANTS = ['bare', 'predefined']
VARIANT_WORKER_SHARE = {'bare': 0.7, 'predefined': 0.3}
MAX_OPS = 50

INTENTS = ['base_type', 'derived_type', 'dup_dimension', 'scaled_unit',
           'alias_unit',
           'term_unit', 'wrong_dim_term', 'derive_unit', 'derive_bad',
           'plain_unit', 'currency_reg', 'currency_new', 'dup_symbol',
           'empty_symbol', 'wrong_type_scaled', 'evict', 'term_noise']


def variant_of(seed, run):
    rng = core.rng_for(seed, PROP + ':variant', run)
    return 'predefined' if rng.random() < 0.2 else 'bare'


def gen(seed, run, tier='quick'):
    rng = core.rng_for(seed, PROP, run)
    variant = variant_of(seed, run)
    w = {
        'base_type': rng.choice([1, 2, 3]),
        'derived_type': rng.choice([2, 4, 6]),
        'dup_dimension': rng.choice([0, 1, 2]),
        'scaled_unit': rng.choice([3, 6, 9]),
        'alias_unit': rng.choice([0, 1, 2]),
        'term_unit': rng.choice([1, 3, 5]),
        'wrong_dim_term': rng.choice([0, 1, 2]),
        'derive_unit': rng.choice([1, 3, 5]),
        'derive_bad': rng.choice([0, 1, 2]),
        'plain_unit': rng.choice([0, 1, 2]),
        'currency_reg': rng.choice([0, 1, 2]),
        'currency_new': rng.choice([0, 1]),
        'dup_symbol': rng.choice([0, 1, 2]),
        'empty_symbol': rng.choice([0, 1]),
        'wrong_type_scaled': rng.choice([0, 1]),
        'evict': rng.choice([0, 1]),
        'term_noise': rng.choice([0, 1, 2]),
    }
    fault_free = rng.random() < 0.15
    if fault_free:
        for k in ('dup_dimension', 'wrong_dim_term', 'derive_bad',
                  'dup_symbol', 'empty_symbol', 'wrong_type_scaled',
                  'evict'):
            w[k] = 0
    kinds = list(w)
    weights = [w[k] for k in kinds]
    n_ops = rng.randrange(4, (90 if tier == 'thorough' else MAX_OPS) + 1)
    if rng.random() < 0.02:
        # a long-lived process: a few runs are several times longer than
        # the rest (bounded caches evict, counters grow)
        n_ops = rng.randrange(150, 260)
    ops = []
    n_base0 = 0 if variant == 'predefined' and rng.random() < 0.5 \
        else rng.choice([1, 2, 2, 3])
    for _ in range(n_base0):
        ops.append(['base_type'] + [rng.randrange(1 << 16)
                                    for _ in range(4)])
    while len(ops) < n_ops:
        k = rng.choices(kinds, weights)[0]
        ops.append([k] + [rng.randrange(1 << 16) for _ in range(12)])
    if rng.random() < 0.02 and not fault_free:
        # a table-driven declaration of very many units for two types
        # (bounded look-up memos fill up and evict), then the same table
        # once more with the type column mixed up - all of it rejected
        ops.append(['bulk_terms', rng.choice([40, 150])])
    return {'cfg': {'variant': variant, 'fault_free': fault_free,
                    # the precision of the standard decimal context of the
                    # thread (the library works with decimalfp, not with it)
                    'decimal_prec': rng.choice([28, 28, 6, 3]),
                    'amount': rng.choice(['3', '7/3', '1/7', '12.5',
                                          '1000000'])},
            'ops': ops}


def shrink_args(h):
    import copy
    for i, op in enumerate(h['ops']):
        if any(x > 16 for x in op[1:]):
            c = copy.deepcopy(h)
            c['ops'][i] = [op[0]] + [x % 16 for x in op[1:]]
            yield c


def _frac(x):
    return Fraction(x.numerator, x.denominator)


def execute(h):
    from sim.core import KnownFindings
    from quantity import Quantity, Unit, QuantityError
    from quantity.money import Money

    kf = KnownFindings()
    cfg, ops = h['cfg'], h['ops']
    import decimal
    decimal.getcontext().prec = cfg.get('decimal_prec', 28)
    model = decl.RefDir()
    model.noref_scaled = True
    model.composite_symbols = True
    model.int_terms = []
    env = decl.Env()
    if cfg['variant'] == 'predefined':
        decl.seed_catalogue(model, env)
    n_cat_units = len(model.uorder)
    amount = Fraction(cfg['amount'])

    faults, probes, known = {}, {}, {}
    violations, log = [], []
    shapes = []

    def bump(d, k, n=1):
        d[k] = d.get(k, 0) + n

    class Stop(Exception):
        pass

    def violate(oracle, cls, step, **facts):
        fid = kf.match(PROP, oracle, dict(facts, **{'class': cls}))
        if fid:
            bump(known, fid)
            return
        violations.append(dict(facts, oracle=oracle, step=step,
                               **{'class': cls}))
        raise Stop()

    def check_unit(step, sym):
        mu = model.units[sym]
        u = env.units[sym]
        cls = env.types[mu['type']]
        mt = model.types[mu['type']]
        # found under its unique symbol as the identical object
        try:
            found = Unit(sym)
        except Exception as e:      # noqa
            violate('directory', 'symbol_not_found', step, symbol=sym,
                    observed=type(e).__name__)
            return
        if found is not u:
            violate('directory', 'symbol_other_object', step, symbol=sym)
        if found.qty_cls is not cls:
            violate('directory', 'unit_of_other_type', step, symbol=sym,
                    expected=mu['type'],
                    observed=getattr(found.qty_cls, '__name__', None))
        if sym not in cls:
            violate('directory', 'not_in_own_type', step, symbol=sym,
                    type=mu['type'])
        try:
            same = cls.get_unit_by_symbol(sym) is u
        except Exception:       # noqa
            violate('directory', 'get_unit_by_symbol_fails', step,
                    symbol=sym, type=mu['type'])
        else:
            if not same:
                violate('directory', 'get_unit_by_symbol_other', step,
                        symbol=sym)
        # ... and by no other type
        other = model.order[(step + len(sym)) % len(model.order)]
        if other != mu['type']:
            ocls = env.types[other]
            if sym in ocls:
                violate('directory', 'listed_by_other_type', step,
                        symbol=sym, type=mu['type'], other=other)
            try:
                ocls.get_unit_by_symbol(sym)
            except Exception:       # noqa: any exception is "not found"
                pass
            else:
                violate('directory', 'found_in_other_type', step,
                        symbol=sym, type=mu['type'], other=other)
        # factory dispatch (amounts in every spelling a user may write)
        from decimalfp import Decimal
        amt_s = ['3', '2.5', '7/3', '-1', '1e3', '+3', '.5', '3.', '1E-2',
                 '+7/3', '-0'][(step + len(sym)) % 11]
        amt_n = [3, 2.5, Fraction(7, 3), Decimal('-1.5'),
                 '12'][(step + len(sym)) % 5]
        # (a symbol with leading / trailing white space cannot be spelled in
        # an amount-and-symbol string - the string forms are skipped for it)
        spellable = sym == sym.strip()
        for how, fn in (('number_and_unit', lambda: Quantity(amt_n, u)),
                        ('string', lambda: Quantity(f"{amt_s} {sym}")),
                        ('own_class_string', lambda: cls(f"{amt_s} {sym}")),
                        ('string_spaced',
                         lambda: Quantity(f"  {amt_s}  {sym} ")),
                        ('own_class_number', lambda: cls(amt_n, u)),
                        ('string_and_same_unit',
                         lambda: Quantity(f"{amt_s} {sym}", u)),
                        ('own_class_string_and_unit',
                         lambda: cls(f"{amt_s} {sym}", u))):
            if 'string' in how and not spellable:
                continue
            try:
                q = fn()
            except Exception as e:      # noqa
                violate('factory', 'construction_failed', step, symbol=sym,
                        how=how, observed=type(e).__name__)
                continue
            if type(q) is not cls:
                violate('factory', 'wrong_type', step, symbol=sym, how=how,
                        expected=mu['type'], observed=type(q).__name__)
        # scale
        f = mu['factor']
        if f is not None and mt['ref'] is not None:
            ref = env.units[mt['ref']]
            if mt['quantum'] is not None:
                uq = u.quantum
                if uq is None or _frac(uq) != mt['quantum'] / f:
                    violate('scale', 'unit_quantum', step, symbol=sym,
                            expected=str(mt['quantum'] / f),
                            observed=None if uq is None else str(_frac(uq)))
                a = 3 * mt['quantum'] / f
            else:
                a = amount
            try:
                got = _frac((a * u).convert(ref).amount)
                back = _frac(((a * f) * ref).convert(u).amount)
            except Exception as e:      # noqa
                violate('scale', 'conversion_failed', step, symbol=sym,
                        observed=type(e).__name__)
                return
            if got != a * f:
                violate('scale', 'to_reference', step, symbol=sym,
                        kind=mu['kind'], amount=str(a),
                        expected=str(a * f), observed=str(got),
                        model_factor=str(f))
            if back != a:
                violate('scale', 'from_reference', step, symbol=sym,
                        kind=mu['kind'], expected=str(a),
                        observed=str(back), model_factor=str(f))

    def check_type(step, tn):
        mt = model.types[tn]
        cls = env.types[tn]
        # a caller may do what it likes with what the queries hand out
        for handed_out in (cls.units(), getattr(cls, 'definition', None)):
            try:
                if isinstance(handed_out, list):
                    del handed_out[:]
                elif isinstance(handed_out, dict):
                    handed_out.clear()
            except Exception:       # noqa
                pass
        got = [u.symbol for u in cls.units()]
        if sorted(got) != sorted(mt['units']) or len(got) != len(set(got)):
            violate('directory', 'units_listing', step, type=tn,
                    missing=sorted(set(mt['units']) - set(got)),
                    extra=sorted(set(got) - set(mt['units'])))
        if len(cls) != len(mt['units']) or \
                sorted(iter(cls)) != sorted(mt['units']):
            violate('directory', 'len_or_iter', step, type=tn)
        # the definition of a derived type names the types it was declared
        # over, with their exponents (whatever the spelling: operators on
        # the classes or a Term)
        if not mt['base'] and not mt['catalogue']:
            by_cls = {}
            for c_, e_ in cls.definition:
                by_cls[id(c_)] = by_cls.get(id(c_), 0) + e_
            want = {}
            for bn, e in mt['items']:
                want[id(env.types[bn])] = want.get(id(env.types[bn]), 0) + e
            want = {k: v for k, v in want.items() if v}
            by_cls = {k: v for k, v in by_cls.items() if v}
            if by_cls != want:
                violate('directory', 'type_definition', step, type=tn,
                        declared=[list(i) for i in mt['items']],
                        observed=[[getattr(c_, '__name__', str(c_)), e_]
                                  for c_, e_ in cls.definition])
        # reference unit of a derived type
        if not mt['base'] and mt['ref'] is not None and \
                not mt['catalogue']:
            ru = cls.ref_unit
            exp = {}
            for bn, e in mt['items']:
                bt = model.types[bn]
                # expand to base types' reference units
                for dname, de in bt['dim'].items():
                    rs = model.types[dname]['ref']
                    exp[rs] = exp.get(rs, 0) + de * e
            exp = {k: v for k, v in exp.items() if v != 0}
            obs = {}
            numeric = None
            for elem, e in ru.normalized_definition:
                if isinstance(elem, Unit):
                    obs[elem.symbol] = obs.get(elem.symbol, 0) + e
                else:
                    numeric = str(elem)
            if obs != exp or numeric is not None:
                violate('ref_unit_def', 'not_product_of_base_refs', step,
                        type=tn, expected=exp, observed=obs,
                        numeric=numeric)

    def sweep(step, rot):
        # every user-declared unit, a rotating window of catalogue units
        syms = model.uorder[n_cat_units:]
        if n_cat_units:
            w = 12
            start = (rot * w) % n_cat_units
            syms = [model.uorder[(start + i) % n_cat_units]
                    for i in range(w)] + syms
        for sym in syms:
            try:
                check_unit(step, sym)
            except Stop:
                raise
            except Exception as e:      # noqa
                # a directory query on a declared unit must not raise
                violate('directory', 'query_raised', step, symbol=sym,
                        observed=type(e).__name__)
        for tn in model.order:
            try:
                check_type(step, tn)
            except Stop:
                raise
            except Exception as e:      # noqa
                violate('directory', 'query_raised', step, type=tn,
                        observed=type(e).__name__)
        # an undeclared symbol is unknown
        try:
            Unit('no such unit')
        except Exception:       # noqa: any exception is "unknown"
            pass
        else:
            violate('directory', 'unknown_symbol_found', step)
        # the base type lists nothing and is nobody's type
        try:
            got = [u.symbol for u in Quantity.units()]
        except Exception as e:      # noqa
            got = ['<' + type(e).__name__ + '>']
        if got or len(Quantity) != 0:
            violate('directory', 'base_type_lists_units', step,
                    observed=sorted(got)[:5], count=len(got))
        # pairwise scale along each type's unit list (neighbours)
        for tn in model.order:
            mt = model.types[tn]
            if mt['ref'] is None or mt['quantum'] is not None or \
                    mt['catalogue']:
                continue
            us = mt['units']
            # (... and every pair of the five youngest: how two units were
            # spelled may matter for the quotient of their scales)
            last = us[-5:]
            for s1, s2 in list(zip(us, us[1:])) + [
                    (x, y) for j, x in enumerate(last)
                    for y in last[j + 2:]] + [
                    (y, x) for j, x in enumerate(last) for y in last[j + 1:]]:
                f1, f2 = model.units[s1]['factor'], model.units[s2]['factor']
                try:
                    got = _frac((amount * env.units[s1])
                                .convert(env.units[s2]).amount)
                except Exception as e:      # noqa
                    violate('scale', 'conversion_failed', step, symbol=s1,
                            to=s2, observed=type(e).__name__)
                    continue
                if got != amount * f1 / f2:
                    violate('scale', 'between_units', step, frm=s1, to=s2,
                            expected=str(amount * f1 / f2),
                            observed=str(got))

        # base types without reference unit: units built on the same unit
        # convert by their scales and are equal iff the scales are; units
        # built on different units do not convert (no converter is
        # registered in these worlds) and are never equal
        for tn in model.order:
            mt = model.types[tn]
            if mt['ref'] is not None or not mt['base'] or mt['money'] or \
                    mt['catalogue'] or not any(
                        model.units[s]['kind'] == 'scaled'
                        for s in mt['units']):
                continue
            us = mt['units']
            pairs_ = list(zip(us, us[1:])) + [(us[-1], us[0])]
            for s1, s2 in pairs_:
                if s1 == s2:
                    continue
                m1, m2 = model.units[s1], model.units[s2]
                u1, u2 = env.units[s1], env.units[s2]
                same_root = m1['bvec'] == m2['bvec']
                bump(probes, 'noref_pair_same_root' if same_root
                     else 'noref_pair_other_root')
                try:
                    got = _frac((amount * u1).convert(u2).amount)
                except Exception as e:      # noqa
                    got = type(e).__name__
                exp = amount * m1['num'] / m2['num'] if same_root \
                    else 'UnitConversionError'
                if got != exp:
                    violate('scale', 'no_reference_unit', step, frm=s1,
                            to=s2, expected=str(exp), observed=str(got))
                try:
                    eq = (u1 == u2)
                except Exception as e:      # noqa
                    eq = type(e).__name__
                if eq != (same_root and m1['num'] == m2['num']):
                    violate('directory', 'unit_equality', step, a=s1, b=s2,
                            observed=str(eq))

    try:
        sweep(-1, 0)
        for i, op in enumerate(ops):
            if op[0] == 'bulk_terms':
                refs = [t for t in model.types_with_ref()
                        if model.types[t]['base'] and
                        model.types[t]['quantum'] is None and
                        not model.types[t]['catalogue']][:2]
                if len(refs) < 2:
                    log.append([i, op[0], 'noop'])
                    continue
                made = 0
                names = []
                # phase 0: scaled units, alternating between the two types
                for j in range(op[1]):
                    tn = refs[j % 2]
                    act = {'a': 'scaled_unit', 'type': tn,
                           'sym': f'b{i}_{j}',
                           'parent': model.types[tn]['ref'],
                           'k': {'t': 'int', 'v': str(j + 2)}, 'via': 'rmul',
                           'expect': 'accept'}
                    out, info = decl.perform(env, act)
                    if out == 'ok':
                        decl.apply(model, act, info)
                        names.append((act['sym'], j % 2))
                # phase 1: an alias for each, defined by a term of it
                # (every definition is looked up: that many distinct terms);
                # phase 2: the same definitions with the types mixed up
                for rnd in (0, 1):
                    for j, (sym, side) in enumerate(names):
                        act = {'a': 'term_unit',
                               'type': refs[(side + rnd) % 2],
                               'sym': f'a{i}_{rnd}_{j}',
                               'items': [[sym, 1]], 'k': None, 'nums': [],
                               'spell': 0,
                               'expect': 'reject' if rnd else 'accept',
                               'bad': 'wrong_dimension'}
                        out, info = decl.perform(env, act)
                        if rnd and out == 'ok':
                            violate('decl', 'accepted_invalid', i,
                                    action=act, nth=j)
                        if not rnd and out == 'ok':
                            decl.apply(model, act, info)
                            made += 1
                bump(probes, 'table_driven_declarations', made)
                bump(faults, 'rejected:wrong_dimension', op[1])
                log.append([i, op[0], made])
                sweep(i, i)
                continue
            act = decl.resolve(model, op)
            if act is None:
                log.append([i, op[0], 'noop'])
                continue
            out, info = decl.perform(env, act)
            accepted = out == 'ok'
            exp = act['expect']
            if exp == 'reject':
                bump(faults, 'rejected:' + act['bad'])
                if accepted:
                    violate('decl', 'accepted_invalid', i, action=act)
            elif exp == 'accept' and not accepted:
                # the statement does not promise that every valid
                # declaration is accepted: followed, counted, not judged
                bump(probes, 'valid_declaration_refused')
            elif exp == 'follow' and not accepted:
                bump(probes, 'followed_rejection')
            if accepted and act['a'] == 'evict':
                bump(faults, 'memo_eviction')
            if accepted and act['a'] == 'derived_type' and \
                    act.get('auto_ref') and not info.get('ref_sym'):
                # all base types have a reference unit and no symbol was
                # given: the reference unit is their product, under a
                # generated symbol
                violate('ref_unit_def', 'missing', i, action=act)
            if accepted and exp != 'reject':
                # duplicate symbol accepted although the model knows it?
                for s in ([info.get('ref_sym')] if act['a'] == 'derived_type'
                          and act.get('auto_ref') else []) + \
                        ([info.get('sym')] if act['a'] == 'derive_unit'
                         and act['sym'] is None else []):
                    if s is not None and s in model.units:
                        violate('decl', 'duplicate_symbol_accepted', i,
                                action=act, symbol=s)
                if act['a'] == 'derive_unit' and act['sym'] is None and \
                        info.get('sym') is not None:
                    # "generated based on args": the unit is found under a
                    # symbol made of the symbols of the units it was
                    # derived from, not of some other units (judged for
                    # plain alphanumeric symbols: a composite symbol may be
                    # taken apart when it is rendered inside another one)
                    lost = [s for s, (_b, e) in zip(
                        act['units'], model.types[act['type']]['items'])
                        if e and s.isalnum() and s not in info['sym']
                        and decl.lib_sym(s) is s]
                    bump(probes, 'generated_unit_symbol')
                    if lost:
                        violate('directory', 'generated_symbol_names_other_'
                                'units', i, action=act, symbol=info['sym'],
                                missing=lost)
                if act['a'] == 'currency_reg' and not info.get('same', True):
                    violate('directory', 'currency_reregistered_other_object',
                            i, code=act['code'])
                decl.apply(model, act, info)
                if act['a'] == 'derived_type':
                    t = model.types[act['name']]
                    if any(not model.types[b]['base'] for b, _ in t['items']):
                        bump(probes, 'derived_of_derived_type')
                    if any(model.types[b]['catalogue'] for b, _ in t['items']):
                        bump(probes, 'built_on_catalogue_type')
                if act['a'] == 'term_unit' and len(
                        {model.units[s]['type'] for s, _ in act['items']}) >= 2:
                    bump(probes, 'term_unit_over_2_types')
                if act.get('alias_of'):
                    bump(probes, 'alias_unit_declared')
                if act['a'] == 'scaled_unit' and \
                        model.units[act['parent']]['kind'] != 'ref':
                    bump(probes, 'scaled_off_non_reference_parent')
            if exp == 'reject' and act.get('dup_dim') and not accepted:
                bump(probes, 'same_dimension_written_differently')
            log.append([i, act['a'], out,
                        info if out == 'exc' else act.get('sym')
                        or act.get('name') or act.get('code')])
            sweep(i, i)
            shapes.append(len(model.uorder))
    except Stop:
        pass
    shape = [[len(t['dim']), len(t['units']), t['ref'] is not None,
              t['quantum'] is not None]
             for t in model.types.values() if not t['catalogue']]
    kinds = {}
    depth = 0
    for s in model.uorder[n_cat_units:]:
        kinds[model.units[s]['kind']] = kinds.get(model.units[s]['kind'], 0) + 1
    return {'digest': core.digest(log), 'violations': violations,
            'known': known, 'faults': faults, 'probes': probes,
            'ops': len(log),
            'reach': {'model_shapes': [core.digest([sorted(shape),
                                                    sorted(kinds.items())])],
                      'op3grams': list({'>'.join(x[1] + ':' + str(x[2])
                                                 for x in log[j:j + 3])
                                        for j in range(max(0, len(log) - 2))}
                                       )[:60]},
            'n_units': len(model.uorder) - n_cat_units,
            'n_types': len([t for t in model.types.values()
                            if not t['catalogue']]) - 1,
            'log': log if h.get('want_log') else None}


def judge(h):
    res = core.run_in_child(execute, h)
    res['worlds'] = 1
    res['hist_digest'] = core.digest([h['cfg'], h['ops']])
    res['nontrivial'] = bool(sum(res['faults'].values()) >= 1 and
                             res.get('n_units', 0) >= 3 and
                             res.get('n_types', 0) >= 2)
    return res


def run_one(seed, run, tier):
    h = gen(seed, run, tier)
    res = judge(h)
    res['sample'] = h if run < 3 else None
    res.pop('log', None)
    return res


RULE = ("run i draws, from random.Random(splitmix64(VERIF_SEED,'C15',i)), a "
        "world variant (bare, or with the predefined catalogue loaded), an "
        "op mix and <=50 declaration intents {base type (with/without "
        "reference unit, quantum), derived type (1-3 factors, exponents "
        "-3..3, derived-of-derived, explicit/generated reference symbol), "
        "scaled unit (int/Decimal/Fraction/float/SI prefix off any parent, "
        "also in base types WITHOUT reference unit: convertible among the "
        "multiples of one unit only), symbols that look like generated ones "
        "(a/b, a2), plain ints as only numeric element of a term, "
        "term-defined unit, unit derived from base-type units, plain unit, "
        "currency registration/declaration, and the must-reject forms: "
        "taken dimension written differently, term of another dimension, "
        "duplicate symbol, empty symbol, wrong unit count/order/type for "
        "derive_unit_from, derive on a base type, scaled off another "
        "type's unit; memo eviction}; intents are resolved against the "
        "RefDir model; after every step every declared unit and type is "
        "checked (identity under its symbol, listed by exactly its type, "
        "factory dispatch for number+unit and string, exact scale to and "
        "from the reference unit, between neighbours and among the five "
        "youngest units of a type, reference unit "
        "of derived types, the base type Quantity lists nothing). Distinct "
        "= digest of (configuration, intents); non-trivial = >=1 rejected "
        "declaration or eviction fired, >=2 user types and >=3 user units.")
ASSUMPTIONS = [
    "single-threaded use",
    "python runs without -O",
    "inputs the statement is silent about are not generated: negative or "
    "zero scale factors, definition-less units on types with a reference "
    "unit, scaled or term-defined units on types without one, explicit "
    "reference symbols on derived types whose base types lack one",
    "variant 'predefined': the catalogue is taken as given initial state "
    "(read through the public API); C20 is not claimed",
    "decimalfp pure-Python implementation (see DESIGN.md 2.11)",
]
REAL = ["quantity (QuantityMeta, Quantity, Unit, Term, DefinedItemRegistry, "
        "MoneyMeta) from /repo/src", "quantity.predefined (variant)",
        "decimalfp", "CPython dict behaviour under the stated hash seed"]
STUBS = ["none (no clock, no I/O in this property); memo eviction reaches "
         "_UNIT_OP_CACHE and Term._normalized/_hash by name"]
