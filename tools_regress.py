"""Re-run the targeted check against every seeded change (scratch worktree
of /repo HEAD + patch) for a few seeds; prints one line per (change, seed).
Nothing is written under seeded/.

  tools_regress.py [--seeds 0 1] [--only ID ...]
"""
import argparse
import glob
import json
import os
import subprocess
import sys

VERIF = os.path.dirname(os.path.abspath(__file__))


def sh(cmd, **kw):
    r = subprocess.run(cmd, shell=True, capture_output=True, text=True, **kw)
    return r.returncode, r.stdout + r.stderr


def main():
    ap = argparse.ArgumentParser()
    ap.add_argument('--seeds', nargs='*', type=int, default=[0, 1])
    ap.add_argument('--only', nargs='*')
    args = ap.parse_args()
    bad = 0
    for meta_path in sorted(glob.glob(os.path.join(VERIF, 'seeded', '*',
                                                   'meta.json'))):
        m = json.load(open(meta_path))
        sid = m['id']
        if args.only and sid not in args.only:
            continue
        expect = m.get('caught', True)
        # a change outside the targeted statement may be reported elsewhere
        prop = m['property']
        # a plain copy of the source tree (several shards may run at once;
        # git worktrees of one repository cannot be added concurrently)
        scratch = f'/tmp/seedreg.{sid}'
        sh(f'rm -rf {scratch}; mkdir -p {scratch} && '
           f'cp -r /repo/src {scratch}/src')
        try:
            code, out = sh(f'cd {scratch} && git apply '
                           f'{os.path.dirname(meta_path)}/patch.diff')
            if code != 0:
                print(f'{sid}: patch does not apply any more')
                continue
            for seed in args.seeds:
                env = dict(os.environ, VERIF_SEED=str(seed),
                           VERIF_REPO_SRC=f'{scratch}/src',
                           VERIF_REPLAY_DIR=f'{scratch}/replays')
                code, out = sh(f'{VERIF}/check {prop} --no-evidence', env=env)
                first = next((l for l in out.splitlines()
                              if l.startswith('violation run')), '')
                ok = (code == 1) == bool(expect)
                bad += not ok
                print(f"{sid:55s} seed {seed}: exit {code} "
                      f"{'as expected' if ok else 'UNEXPECTED'} "
                      f"{first[:60]}", flush=True)
        finally:
            sh(f'rm -rf {scratch}')
    print(f'{bad} unexpected')
    return 1 if bad else 0


if __name__ == '__main__':
    sys.exit(main())
