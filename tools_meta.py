"""Set hand-written fields of seeded/<id>/meta.json.

  tools_meta.py <id> key=value [key=value ...]   (true/false become booleans)
"""
import json
import os
import sys

VERIF = os.path.dirname(os.path.abspath(__file__))
RAN = ("tools_seeded.py: scratch worktree of /repo HEAD + patch.diff; pinned "
       "test-suite; demo.py (exit 1); ./check (quick tier, VERIF_SEED=0); "
       "patch undone; demo.py (exit 0)")


def main():
    p = os.path.join(VERIF, 'seeded', sys.argv[1], 'meta.json')
    m = json.load(open(p))
    for kv in sys.argv[2:]:
        k, v = kv.split('=', 1)
        m[k] = {'true': True, 'false': False}.get(v, v)
    m.setdefault('what_i_ran', RAN)
    json.dump(m, open(p, 'w'), indent=1)
    print({k: m.get(k) for k in ('caught', 'caught_initially')})


main()
